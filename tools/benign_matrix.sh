#!/bin/bash
# Runs both quick checks against every benign refactoring; every line must end with exit=0.
scale=${1:-0.4}
for f in /verif/benign/*.diff; do
  for prop in C19 C18; do
    out=$(VERIF_TRIAGE_FAST=1 /verif/tools/try_patch.sh $f $prop $scale 2>&1)
    echo "$(basename $f) check=$prop scale=$scale $(echo "$out" | grep -o 'exit=[0-9]*' | tail -1) $(echo "$out" | grep 'violation classes seen' | head -1)"
  done
done
