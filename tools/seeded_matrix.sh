#!/bin/bash
# Runs the quick check of the named property (full scale unless $2 given) against every seeded change; prints one line each.
# usage: tools/seeded_matrix.sh [scale] [ids...]
scale=${1:-1.0}; shift
ids=${@:-$(cd /verif/seeded && ls -d */ | tr -d /)}
for id in $ids; do
  prop=$(python3 -c "import json;print(json.load(open('/verif/seeded/$id/meta.json'))['property'])")
  out=$(/verif/tools/try_patch.sh /verif/seeded/$id/patch.diff $prop $scale 2>&1)
  rc=$(echo "$out" | grep -o "exit=[0-9]*" | tail -1)
  vr=$(echo "$out" | grep -o "violating_runs=[0-9]*" | tail -1)
  classes=$(echo "$out" | grep "violation classes seen:" | sed 's/violation classes seen: //' | head -1)
  echo "$id check=$prop scale=$scale $rc $vr classes: $classes"
done
