#!/usr/bin/env python3
"""Fold the output of tools/seeded_matrix.sh into seeded/<id>/meta.json and print a markdown table."""
import json, re, sys, os
rows = []
for line in open(sys.argv[1]):
    m = re.match(r"(\S+) check=(\S+) scale=(\S+) exit=(\d+) violating_runs=(\d+) classes:\s*(.*)", line.strip())
    if not m:
        continue
    sid, chk, scale, rc, vr, classes = m.groups()
    p = f"/verif/seeded/{sid}/meta.json"
    meta = json.load(open(p))
    meta["checked_with"] = {"command": f"tools/try_patch.sh seeded/{sid}/patch.diff {chk} {scale}  (= GBASIS_ROOT=<scratch worktree with the patch> ./check {chk} --tier quick --scale {scale})",
                            "exit": int(rc), "violating_runs": int(vr), "violation_classes": classes.strip()}
    json.dump(meta, open(p, "w"), indent=1)
    needs = meta.get("needs", "")
    needs = needs if isinstance(needs, str) else json.dumps(needs)
    rows.append((sid, chk, "caught" if rc == "1" else "MISSED", vr, classes.strip(), needs[:140].replace("\n", " ").replace("|", "/")))
print("| seeded change | check | result (quick tier) | violating runs | violation classes reported (oracle, callee) | needs |")
print("|---|---|---|---|---|---|")
for r in rows:
    print("| `%s` | %s | %s | %s | %s | %s |" % r)
