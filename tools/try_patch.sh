#!/bin/bash
# usage: tools/try_patch.sh <patch.diff> <prop> [scale] ; applies the patch to a scratch worktree of /repo HEAD,
# runs the quick check against it (outputs under a scratch VERIF_OUT), removes the worktree.
set -u
patch=$(realpath "$1"); prop=$2; scale=${3:-0.5}
wt=$(mktemp -d /tmp/trypatch.XXXXXX)
out=$(mktemp -d /tmp/tryout.XXXXXX)
git -C /repo worktree add --detach "$wt" HEAD -q || exit 3
if ! git -C "$wt" apply "$patch"; then echo "PATCH-DOES-NOT-APPLY"; git -C /repo worktree remove --force "$wt"; exit 3; fi
cd /verif
GBASIS_ROOT="$wt" VERIF_OUT="$out" VERIF_TRIAGE_FAST="${VERIF_TRIAGE_FAST:-}" timeout 3000 ./check "$prop" --tier quick --scale "$scale" 2>&1 | grep -E "VIOLATION|HARNESS|KNOWN|OK property|candidate|violation classes|^  |runs=" | cut -c1-420
rc=${PIPESTATUS[0]}
git -C /repo worktree remove --force "$wt"
rm -rf "$out"
echo "exit=$rc"
exit $rc
