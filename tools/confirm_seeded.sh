#!/bin/bash
# usage: tools/confirm_seeded.sh <dir with patch.diff demo.py meta.json> <seeded id>
# Confirms in a scratch worktree: demo passes on clean tree, fails with patch, pinned tests pass with patch.
set -u
src=$(realpath "$1"); id=$2
wt=$(mktemp -d /tmp/confirm.XXXXXX)
git -C /repo worktree add --detach "$wt" HEAD -q || exit 3
cp "$src/demo.py" "$wt/demo_seeded.py"; mkdir -p "$wt/out"
cd "$wt"
timeout 600 /venv/bin/python demo_seeded.py >/dev/null 2>&1; clean=$?
git apply "$src/patch.diff" || { echo "$id PATCH-DOES-NOT-APPLY"; cd /; git -C /repo worktree remove --force "$wt"; exit 3; }
timeout 600 /venv/bin/python demo_seeded.py >/dev/null 2>&1; patched=$?
tail=$(timeout 1800 /venv/bin/python -m pytest -q -p no:cacheprovider -n 6 --timeout=900 2>&1 | tail -1)
cd /
git -C /repo worktree remove --force "$wt"
echo "$id demo_clean_exit=$clean demo_patched_exit=$patched tests: $tail"
mkdir -p /verif/seeded/$id
cp "$src/patch.diff" "$src/demo.py" /verif/seeded/$id/
python3 - "$src/meta.json" "/verif/seeded/$id/meta.json" "$clean" "$patched" "$tail" <<'PY'
import json,sys
m=json.load(open(sys.argv[1]))
m["confirmed_by_me"]={"demo_exit_on_clean_tree":int(sys.argv[3]),"demo_exit_with_patch":int(sys.argv[4]),"pytest_tail_with_patch":sys.argv[5],
  "how":"tools/confirm_seeded.sh: scratch worktree of /repo HEAD; demo.py run before and after git apply; pinned suite (-n 6) with the patch"}
json.dump(m,open(sys.argv[2],"w"),indent=1)
PY
