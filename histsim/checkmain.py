"""The check proper: campaign -> triage -> minimise -> replay -> evidence -> exit code."""
import json
import os
import sys
import time

from . import driver

VERIF = driver.VERIF


def _workers():
    try:
        return max(1, int(os.environ.get("VERIF_WORKERS", "") or (os.cpu_count() or 4)))
    except ValueError:
        return os.cpu_count() or 4


def load_known():
    path = os.path.join(VERIF, "known_findings.json")
    try:
        with open(path) as fh:
            return json.load(fh)
    except FileNotFoundError:
        return {"findings": [], "fixed": []}


def match_known(known, prop, v):
    for f in known.get("findings", []):
        if f.get("property") == prop and f.get("oracle") == v["oracle"] and f.get("callee") == v["callee"] \
                and f.get("detail_contains", "") in v["detail"]:
            return f
    return None


def run_check(prop, tier, sizes, scale=1.0):
    t0 = time.monotonic()
    n_random, n_sweep, n_det, shrink_budget = sizes
    n_random = max(8, int(n_random * scale))
    n_sweep = max(4, int(n_sweep * scale))
    try:
        base = int(os.environ.get("VERIF_SEED", "0"))
    except ValueError:
        base = 0
    os.environ["HISTSIM_TIER"] = tier  # read by the generator (thorough-only workload); inherited by sub-processes
    workers = _workers()
    print(f"histsim check {prop} tier={tier} VERIF_SEED={base} workers={workers} root={os.environ.get('GBASIS_ROOT', '/repo')}")
    sys.stdout.flush()
    try:
        from .api import load

        ns = load()
    except Exception as exc:  # noqa: BLE001
        print(f"HARNESS-ERROR cannot load library: {exc}")
        return 2
    seeds_r = [base * (1 << 24) + i for i in range(n_random)]
    seeds_s = [base * (1 << 24) + (1 << 22) + i for i in range(n_sweep)]
    res_r, wall_r = driver.campaign(prop, "random", seeds_r, [prop], workers, sample_every=max(1, n_random // 6))
    res_s, wall_s = driver.campaign(prop, "sweep", seeds_s, [prop], workers, sample_every=max(1, n_sweep // 3))
    results = res_r + res_s
    harness = [r for r in results if "harness_error" in r]
    good = [r for r in results if "harness_error" not in r]
    rc = 0
    lines = []
    for h in harness[:10]:
        print(f"HARNESS-ERROR seed={h.get('seed')} {h['harness_error'].strip().splitlines()[-1][:300]}")
    if harness:
        rc = 2

    # ---- violations: one representative per class
    known = load_known()
    classes = {}
    for r in good:
        v = r.get("violation")
        if v and prop in v["props"]:
            classes.setdefault((v["oracle"], v["callee"]), []).append(r)
    n_viol_runs = sum(len(v) for v in classes.values())
    if classes:
        print("violation classes seen: " + " ".join(f"[{k[0]}, {k[1]}]x{len(v)}" for k, v in sorted(classes.items())))
    reported = []
    known_hits = []
    fast = bool(os.environ.get("VERIF_TRIAGE_FAST"))  # seeded-matrix runs: minimise one class only, skip the self-test
    for key in sorted(classes)[: (1 if fast else 4)]:
        runs = sorted(classes[key], key=lambda r: (r["n_ops"], r["seed"]))
        r = runs[0]
        v = r["violation"]
        kf = match_known(known, prop, v)
        if kf:
            known_hits.append((kf, len(runs)))
            continue
        want = [v["oracle"], v["callee"]]
        print(f"candidate violation class {want} in {len(runs)} run(s); minimising seed {r['seed']} ({len(r['ops'])} ops)")
        sys.stdout.flush()
        ops, attempts = driver.shrink(prop, prop, r["seed"], r.get("cfg"), r["ops"], want, [prop], shrink_budget)
        rmin = driver.forked_run(prop, r["seed"], ops=ops, cfg=r.get("cfg"), stop_props=[prop])
        if rmin.get("violation") and [rmin["violation"]["oracle"], rmin["violation"]["callee"]] == want:
            v = rmin["violation"]
            r = dict(r, violation=v)
        path = driver.write_replay(prop, prop, r, ops, want, attempts)
        ok, out = driver.replay_in_fresh_interpreter(path)
        if ok:
            print(f"  {v['detail'][:400]}")
            print(f"  minimised to {len(ops)} op(s) in {attempts} attempts")
            print(f"VIOLATION property={prop} replay={path}")
            reported.append({"class": want, "replay": path, "runs": len(runs), "detail": v["detail"][:500]})
            rc = 1 if rc != 2 or True else rc
        else:
            print(f"HARNESS-ERROR violation class {want} (seed {r['seed']}) did not replay in a fresh interpreter")
            print(out[-1500:])
            if rc == 0:
                rc = 2
    for kf, n in known_hits:
        print(f"KNOWN-FINDING: property={prop} {kf.get('what', '')} ({n} run(s))")

    # ---- determinism self-test
    det = {"sampled": 0, "ops_mismatch": 0, "outcome_mismatch": 0}
    if fast:
        n_det = 0
    det_seeds_r = [r["seed"] for r in res_r if "harness_error" not in r][: n_det]
    det_seeds_s = [r["seed"] for r in res_s if "harness_error" not in r][: (max(2, n_det // 4) if n_det else 0)]
    by_seed = {("random", r["seed"]): r for r in res_r if "harness_error" not in r}
    by_seed.update({("sweep", r["seed"]): r for r in res_s if "harness_error" not in r})
    try:
        for mode, seeds, hs, wk in (("random", det_seeds_r, 7, max(1, workers // 2)), ("sweep", det_seeds_s, 99, 3)):
            if not seeds:
                continue
            got = driver.digests_in_fresh_interpreter(prop, mode, seeds, hs, wk)
            for s in seeds:
                a = by_seed[(mode, s)]
                b = got.get(str(s))
                det["sampled"] += 1
                if not b or b[0] == "HARNESS":
                    print(f"HARNESS-ERROR determinism self-test: seed {s} failed in the fresh interpreter: {b}")
                    rc = 2 if rc == 0 else rc
                elif b[0] != a["opsdigest"]:
                    det["ops_mismatch"] += 1
                    print(f"HARNESS-ERROR determinism self-test: generated operations differ for seed {s} ({mode})")
                    rc = 2 if rc == 0 else rc
                elif b[1] != a["digest"]:
                    det["outcome_mismatch"] += 1
                    msg = (f"run log differs between two executions of seed {s} ({mode}) "
                           f"(PYTHONHASHSEED/worker count changed): outcomes depend on something other than the arguments")
                    if prop == "C19":
                        path = _write_nondet_replay(prop, mode, s, a)
                        print("  " + msg)
                        print(f"VIOLATION property={prop} replay={path}")
                        reported.append({"class": ["determinism", mode], "replay": path, "runs": 1, "detail": msg})
                        rc = 1
                    else:
                        print("NOTE " + msg + " (reported under C19)")
    except Exception as exc:  # noqa: BLE001
        print(f"HARNESS-ERROR determinism self-test failed to run: {exc}")
        rc = 2 if rc == 0 else rc

    wall = time.monotonic() - t0
    ev = build_evidence(prop, tier, base, good, harness, reported, known_hits, det, wall, wall_r + wall_s, workers, ns)
    os.makedirs(os.path.join(driver.OUT, "evidence"), exist_ok=True)
    with open(os.path.join(driver.OUT, "evidence", f"{prop}.json"), "w") as fh:
        json.dump(ev, fh, indent=1)
    c = ev["coverage"]
    print(f"runs={c['runs']} ops={c['evaluations']} distinct_nontrivial={c['distinct_nontrivial']} "
          f"fault_sites={c['distinct_fault_sites']} fired={json.dumps(c['faults_fired'])} "
          f"violating_runs={n_viol_runs} harness_errors={len(harness)} wall={wall:.1f}s")
    if rc == 0:
        print(f"OK property={prop} held on everything explored")
    return rc


def _write_nondet_replay(prop, mode, seed, res):
    os.makedirs(os.path.join(driver.OUT, "replays"), exist_ok=True)
    path = os.path.join(driver.OUT, "replays", f"{prop}-nondet-{seed}.json")
    with open(path, "w") as fh:
        json.dump({"property": prop, "profile": prop, "seed": seed, "mode": mode,
                   "expected": {"oracle": "determinism", "callee": mode}}, fh, indent=1)
    return path


def replay(path):
    try:
        with open(path) as fh:
            doc = json.load(fh)
    except Exception as exc:  # noqa: BLE001
        print(f"HARNESS-ERROR cannot read replay file: {exc}")
        return 2
    prop = doc["property"]
    if doc["expected"]["oracle"] == "determinism":
        a = driver.digests_in_fresh_interpreter(doc["profile"], doc["mode"], [doc["seed"]], 1, 1)
        b = driver.digests_in_fresh_interpreter(doc["profile"], doc["mode"], [doc["seed"]], 2, 2)
        if a != b:
            print(f"VIOLATION property={prop} replay={path}")
            return 1
        print("replay: the two executions agree; not reproduced")
        return 0
    try:
        ok, res, _ = driver.replay_file(path)
    except Exception as exc:  # noqa: BLE001
        print(f"HARNESS-ERROR replay failed to run: {exc}")
        return 2
    if "harness_error" in res:
        print("HARNESS-ERROR " + res["harness_error"][-500:])
        return 2
    if ok:
        v = res["violation"]
        print(f"replay: step {v['step']} {v['oracle']} {v['callee']}: {v['detail'][:600]}")
        print(f"VIOLATION property={prop} replay={path}")
        return 1
    print("replay: violation not reproduced:", json.dumps(res.get("violation"))[:400])
    return 0


def _sum_into(dst, src):
    for k, v in (src or {}).items():
        dst[k] = dst.get(k, 0) + v


def build_evidence(prop, tier, base, good, harness, reported, known_hits, det, wall, wall_campaign, workers, ns):
    fired, configured, stats = {}, {}, {}
    sites, triples, trigrams, sigs = set(), set(), set(), set()
    n_ops = 0
    fault_free = 0
    realfs = 0
    nontrivial_sigs = set()
    scenarios, sweeps = {}, {}
    for r in good:
        if r.get("mode") == "sweep":
            k = "%s:%s" % tuple(r.get("sweep") or ["?", "?"])
            sweeps[k] = sweeps.get(k, 0) + 1
        else:
            k = r.get("scenario") or "none (random fill only)"
            scenarios[k] = scenarios.get(k, 0) + 1
        _sum_into(fired, r["fired"])
        _sum_into(configured, r["configured"])
        _sum_into(stats, r["stats"])
        sites.update(tuple(x) for x in r["fault_sites"])
        triples.update(tuple(x) for x in r["triples"])
        trigrams.update(tuple(x) for x in r["trigrams"])
        n_ops += r["executed"]
        if r.get("fault_free"):
            fault_free += 1
        if r.get("fs") == "real":
            realfs += 1
        any_fired = sum(r["fired"].values()) > 0
        if r["shared_objects"] >= 1 and (r.get("fault_free") or any_fired):
            nontrivial_sigs.add(r["signature"])
    samples = []
    for r in good:
        if "ops" in r and not r.get("violation") and len(samples) < 3:
            samples.append({
                "seed": r["seed"], "mode": r.get("mode"), "n_ops": r["n_ops"],
                "ops": [_brief(o) for o in r["ops"][:14]],
                "log": r["log"][:14],
            })
    if not samples:
        samples.append({"note": "no sample retained"})
    from .faults import eligible_sites

    elig = eligible_sites(ns.pkgdir)
    hit = {}
    for _callee, site in sites:
        f, ln = site.rsplit(":", 1)
        hit.setdefault(f, set()).add(int(ln))
    site_cov = {}
    tot_e = tot_h = 0
    for f in sorted(elig):
        e = elig[f]
        h = hit.get(f, set()) & e
        if e:
            site_cov[f] = [len(h), len(e)]
            tot_e += len(e)
            tot_h += len(h)
    runs = len(good)
    hours = max(wall_campaign, 1e-9) / 3600.0
    cov = {
        "evaluations": n_ops,
        "distinct_nontrivial": len(nontrivial_sigs),
        "rule": ("one case = one seeded history of public calls on a shared pool of user-owned objects (random mode: "
                 "3-30 mixed operations; sweep mode: a short preamble plus one query repeated with the injected abort "
                 "walking over the distinct line sites of its trace). evaluations = operations executed (each faulted "
                 "query additionally runs a traced dry pass, the aborted pass and a recovery pass). A run is "
                 "non-trivial if at least one object was passed to two or more library calls AND (the run is from a "
                 "fault-free configuration OR at least one injected fault actually fired); distinct = distinct "
                 "sequences of (callee, fault kinds fired, outcome class)."),
        "samples": samples,
        "runs": runs,
        "seeds": runs,
        "runs_per_hour": int(runs / hours),
        "seeds_per_hour": int(runs / hours),
        "simulated_time": "not applicable: the library has no clock, timer or deadline; progress is counted in operations",
        "steps": n_ops,
        "fault_free_runs": fault_free,
        "real_tmpdir_fs_runs": realfs,
        "faults_configured": configured,
        "faults_fired": fired,
        "distinct_fault_sites": len(sites),
        "fault_site_line_coverage": {"total": [tot_h, tot_e], "per_file": site_cov,
                                     "meaning": "[lines at which an injected abort fired, eligible lines in function "
                                                "bodies] per file of the package (libcint.py excluded)"},
        "distinct_callee_ambient_outcome_triples": len(triples),
        "distinct_callee_trigrams": len(trigrams),
        "scripted_openings": dict(sorted(scenarios.items())),
        "sweeps_by_kind_and_target": dict(sorted(sweeps.items())),
        "probes": {k: v for k, v in sorted(stats.items())},
        "determinism_selftest": det,
        "components": {
            "real": ["every gbasis module except integrals/libcint.py, imported from " + ns.root, "numpy", "scipy",
                     "single-threaded BLAS"],
            "simulated": ["I/O seam of gbasis.parsers: module attribute `open` wraps the real open of a private "
                          "temporary directory and injects EACCES/EIO on open and EIO on read (8% of runs run without "
                          "the seam)", "the user: owner of arrays/lists/shells/files and of the ambient "
                          "numpy/scipy/warnings state", "reference worlds: a forked zygote that applies state-building "
                          "operations and evaluates queries in children; a second, pristine zygote that never calls the "
                          "library in-process (import calls only)"],
            "stub": ["pyscf Mole (class with _atom, _basis, cart); from_pyscf is real",
                     "iodata IOData object and iodata.convert.convert_to_segmented (identity); from_iodata is real"],
            "not_run": ["gbasis.integrals.libcint (shared library absent)"],
        },
        "workers": workers,
        "harness_errors": len(harness),
        "reported_violations": reported,
        "known_findings_hit": [k.get("what") for k, _ in known_hits],
    }
    return {
        "property_id": prop,
        "tier": tier,
        "seed": base,
        "level": "exploration",
        "coverage": cov,
        "assumptions": [
            "abort granularity is a Python line boundary inside gbasis frames (sys.settrace); aborts strictly inside "
            "one numpy call are modelled only by natural floating-point / special-function raises",
            "lines inside finally/except bodies, try: lines and with-headers are never fault sites",
            "exceptions are compared by type; arrays bitwise or within 1e-12 relative with identical NaN/inf pattern",
            "CPython 3.12, numpy/scipy as installed, OPENBLAS_NUM_THREADS=1",
            "sampling, not enumeration: a clean batch is evidence, not proof",
        ],
        "wall_s": round(wall, 2),
        "violations": len(reported),
    }


def _brief(op):
    o = dict(op)
    if "spec" in o:
        sp = o["spec"]
        o["spec"] = {"fmt": sp["fmt"], "lead_lines": len(sp["lead"]),
                     "elements": [[e["sym"], len(e["shells"])] for e in sp["elements"]]}
    if "d" in o and isinstance(o["d"], list):
        o["d"] = o["d"][:3] + ["..."]
    if "params" in o:
        o["params"] = {k: o["params"][k] for k in list(o["params"])[:6]}
    return o
