"""Execution of one history inside a (forked) run process with all oracles."""
import hashlib
import json
import os
import random

import numpy as np

from . import gen
from .api import HarnessError, load
from .canon import (Mismatch, compare_outcomes, describe, outcome_class, outcome_digest, outcome_ok, outcome_raise,
                    shell_private_attrs, snap)
from .faults import Ambient, SimFault, Tracer, ambient_state, cheap_ambient, choose_fault_event
from .oracles import check_normalised
from .reference import Zygote
from .simfs import RealFS, SimFS
from .world import World, resolve


USER_ACTIONS = ("update", "scribble", "new_coords", "new_shell", "new_container", "write_file", "new_mole", "new_iodata",
                "new_instance", "copy_shell")
EVENT_BUDGET = 600000  # traced line events per run after which faults are no longer placed (deterministic)


class Violation(Exception):
    def __init__(self, props, oracle, callee, detail):
        super().__init__(f"{oracle} {callee}: {detail}")
        self.props = list(props)
        self.oracle = oracle
        self.callee = callee
        self.detail = detail

    def as_dict(self, step):
        return {"props": self.props, "oracle": self.oracle, "callee": self.callee, "detail": self.detail,
                "step": step}


def vclass(v):
    return [v["oracle"], v["callee"]]


class Run:
    def __init__(self, profile, cfg, stop_props):
        self.api = load()
        self.profile = profile
        self.cfg = cfg or {}
        self.stop_props = set(stop_props)
        self.stats = {}
        self.fired = {}
        self.configured = {}
        self.log = []
        self.sigs = []
        self.fault_sites = set()
        self.triples = set()
        self.obj_use = {}
        self.violation = None
        self.other_violations = []
        self.traced_events = 0
        self.held = []
        fs_kind = self.cfg.get("fs", "sim")
        self.make_fs = RealFS if fs_kind == "real" else SimFS
        self.fs = self.make_fs()
        self.world = World(self.fs, history_side=True)
        self.zy = Zygote(self.make_fs)
        self.pz = Zygote(self.make_fs, pristine=True)

    def close(self):
        self.zy.close()
        self.pz.close()
        self.fs.cleanup()

    def bump(self, d, k, n=1):
        d[k] = d.get(k, 0) + n

    # ------------------------------------------------------------------ single calls
    def _call(self, bound, env, tracer=None, fs_fault=None):
        """One execution on the history side. Returns (outcome, value, ambient_change, filters_changed)."""
        amb = Ambient(env)
        with amb:
            self.fs.pending_fault = fs_fault
            try:
                if tracer is not None:
                    value = tracer.run(bound.call)
                else:
                    value = bound.call()
                out = outcome_ok(value)
            except Exception as exc:  # noqa: BLE001
                value = None
                out = outcome_raise(exc)
                if isinstance(exc, SimFault):
                    out = ("raise", "SimFault", str(exc)[:200])
            finally:
                self.fs.pending_fault = None
            changed = amb.changed()
            fchanged = amb.warning_filters_changed()
        return out, value, changed, fchanged

    def _props(self, bound, base):
        props = set(base)
        return sorted(props)

    def _checked_call(self, bound, env, pre_args, pre_pool, tracer=None, fs_fault=None, what="call"):
        out, value, changed, fchanged = self._call(bound, env, tracer, fs_fault)
        if fchanged:
            self.bump(self.stats, "probe_warning_filters_changed")
        how = "raised" if out[0] == "raise" else "returned"
        if changed:
            raise Violation(["C19"], "O1-ambient", bound.label,
                            f"process-wide error state differs after the {what} {how} ({describe(out)}): {changed}")
        post_args = snap(tuple(bound.args))
        if post_args != pre_args:
            idx = [i for i, (a, b) in enumerate(zip(pre_args[2], post_args[2])) if a != b]
            props = ["C18", "C19"] if bound.importy else ["C19"]
            raise Violation(props, "O1-args", bound.label,
                            f"argument(s) {idx} differ after the {what} {how} ({describe(out)}): "
                            f"{_short(pre_args[2][idx[0]] if idx else pre_args)} -> "
                            f"{_short(post_args[2][idx[0]] if idx else post_args)}")
        post_pool = self.world.digest()
        if post_pool != pre_pool:
            raise Violation(["C19"], "O1-pool", bound.label,
                            f"an object owned by the user but not passed to the call differs after the {what} {how}: "
                            + _pool_diff(pre_pool, post_pool))
        return out, value

    @staticmethod
    def _ambient_exc(o):
        """Exception that exists only because the *user* asked numpy / scipy.special / warnings to raise."""
        return o[0] == "raise" and (o[1] in ("FloatingPointError", "SpecialFunctionError") or o[1].endswith("Warning"))

    def _tolerated_under_hostile_state(self, out, ref, env):
        """Under hostile ambient state a call may raise - and whether a floating-point event occurs at all is
        an implementation detail (a correct memo avoids recomputation and with it the event).  Two outcomes
        that differ only in that one (or both) is such an ambient-induced exception are not compared; two
        returned values always are."""
        if not env:
            return False
        if out[0] == "ok" and ref[0] == "ok":
            return False
        if out[0] == "raise" and ref[0] == "raise" and out[1] == ref[1]:
            return False
        if self._ambient_exc(out) or self._ambient_exc(ref):
            self.bump(self.stats, "o2_ambient_induced_divergence_tolerated")
            return True
        return False

    def _o2(self, bound, out, ref, what, env=None):
        if ref[0] == "harness":
            raise HarnessError("reference: " + str(ref[1]))
        if self._tolerated_under_hostile_state(out, ref, env):
            return
        try:
            compare_outcomes(out, ref, self.stats)
        except Mismatch as m:
            props = ["C18", "C19"] if bound.importy else ["C19"]
            raise Violation(props, "O2", bound.label, f"{what}: history and history-free world disagree: {m}")

    def _o2_pristine(self, bound, out, env, what):
        """Import calls whose arguments need no library object are also compared with a process in which
        the library has never been called at all (closes the gap left by state-building calls that the
        ordinary reference has to execute as well)."""
        if not getattr(self, "_pristine", False):
            return
        if not getattr(bound, "pristine_ok", True):
            self.bump(self.stats, "o2_pristine_skipped_user_modified_molecule")
            return
        ref = self.pz.eval(env)
        if ref[0] == "harness":
            raise HarnessError("pristine reference: " + str(ref[1]))
        if self._tolerated_under_hostile_state(out, ref, env):
            return
        try:
            compare_outcomes(out, ref, self.stats)
        except Mismatch as m:
            raise Violation(["C18", "C19"], "O2-pristine", bound.label,
                            f"{what}: the result differs from the same call in a process that never called the "
                            f"library before: {m}")
        self.bump(self.stats, "o2_pristine_comparisons")

    def _o5(self, bound, out, value, what, env=None):
        if bound.expect is None or not bound.valid:
            return
        if out[0] == "raise":
            if out[1] == "SimFault":
                return
            if env:  # under hostile ambient state a call may raise (O2 still pins the outcome)
                self.bump(self.stats, "o5_raise_under_hostile_state_tolerated")
                return
            raise Violation(["C18"], "O5", bound.label, f"{what}: valid import call raised {out[1]}: {out[2]}")
        why = bound.expect(value)
        self.bump(self.stats, "o5_model_comparisons")
        if why:
            raise Violation(["C18"], "O5", bound.label, f"{what}: {why}")

    def _o6_twin(self, shells, label, op):
        """Oracle O6: an updated and renormalised shell behaves like a freshly constructed identical one.

        The twin is built from copies of the current parameters, so it cannot carry anything remembered
        from before the update - including things remembered since *construction*, which the
        history-free world (that applies the same updates) would remember as well.
        """
        api = self.api
        w = self.world
        pts = np.array([[0.1, -0.2, 0.3], [0.9, 0.4, -0.7]])
        for sh in shells[:3]:
            try:
                twin = type(sh)(sh.angmom, np.array(sh.coord), np.array(sh.coeffs), np.array(sh.exps), sh.coord_type,
                                icenter=sh.icenter)
            except Exception:  # noqa: BLE001 - parameters the constructor rejects are not twin material
                self.bump(self.stats, "o6_twin_not_constructible")
                continue
            if hasattr(sh, "variant"):
                twin.variant = sh.variant  # instance-level convention of the simulator's own subclass
            others = [e.obj for e in w.shells if e.obj is not sh and e.obj.angmom <= 3][:1]
            tol = op.get("twin_tol", 1e-4)
            battery = [
                ("overlap_integral", lambda b: api.fn["overlap_integral"](b)),
                ("overlap_integral(tol_screen)", lambda b: api.fn["overlap_integral"](b, tol_screen=tol)),
                ("kinetic_energy_integral", lambda b: api.fn["kinetic_energy_integral"](b)),
                ("evaluate_basis", lambda b: api.fn["evaluate_basis"](b, pts)),
                ("evaluate_deriv_basis", lambda b: api.fn["evaluate_deriv_basis"](b, pts, np.array([1, 0, 1]))),
            ]
            if sh.angmom > 3:
                battery = battery[:2]
            elif ((sh.angmom + 1) * (sh.angmom + 2)) // 2 * sh.coeffs.shape[1] * sh.exps.shape[0] <= 8:
                battery.append(("electron_repulsion_integral", lambda b: api.fn["electron_repulsion_integral"](b[:1])))
            try:
                twin2 = type(sh)(sh.angmom, np.array(sh.coord), np.array(sh.coeffs), np.array(sh.exps), sh.coord_type,
                                 icenter=sh.icenter)
                if hasattr(sh, "variant"):
                    twin2.variant = sh.variant
            except Exception:  # noqa: BLE001
                twin2 = None
            for bi, (name, f) in enumerate(battery):
                # second half of the battery on a basis that lists the shell twice, against two distinct but equal
                # shells: the answer depends on the values of the shells, not on their identity
                doubled = twin2 is not None and bi in (0, 3) and sh.angmom <= 3
                with Ambient(None):
                    try:
                        a = outcome_ok(f(([sh, sh] if doubled else [sh]) + others))
                    except Exception as exc:  # noqa: BLE001
                        a = outcome_raise(exc)
                    try:
                        b = outcome_ok(f(([twin, twin2] if doubled else [twin]) + others))
                    except Exception as exc:  # noqa: BLE001
                        b = outcome_raise(exc)
                try:
                    compare_outcomes(a, b, self.stats)
                except Mismatch as m:
                    raise Violation(["C19"], "O6", name,
                                    f"after {label} + renormalisation the shell and a freshly constructed identical "
                                    f"shell give different results: {m}")
                self.bump(self.stats, "o6_twin_comparisons")

    def _o4(self, shells, label):
        for sh in shells:
            why = check_normalised(self.api, sh, self.stats)
            if why:
                raise Violation(["C19"], "O4", label, why)
            extra = shell_private_attrs(sh)
            if extra:
                self.bump(self.stats, "probe_private_shell_attrs")

    # ------------------------------------------------------------------ one operation
    def step(self, i, op):
        entry = self._step(i, op)
        if op["op"] in USER_ACTIONS:
            # the user's own actions (in-place parameter updates, scribbles...) may legitimately change
            # values handed out earlier that share storage with the user's objects
            for h in self.held:
                h[1] = snap(h[0])
        return entry

    def _step(self, i, op):
        w = self.world
        bound = resolve(w, op)
        zr = self.zy.op(op)
        if zr[0] == "harness":
            raise HarnessError("reference resolve: " + str(zr[1]))
        pr = self.pz.op(op)
        if pr[0] == "harness":
            raise HarnessError("pristine reference resolve: " + str(pr[1]))
        self._pristine = pr[0] == "resolved"
        entry = {"i": i, "op": op["op"], "callee": bound.label}
        if bound.skip:
            entry["skip"] = bound.skip
            return entry
        for a in bound.args:
            if isinstance(a, (np.ndarray, list, tuple, dict)) or hasattr(a, "__dict__"):
                self.obj_use[id(a)] = self.obj_use.get(id(a), 0) + 1
        if bound.kind == "noise":
            bound.call()
            entry["noise"] = True
            return entry
        if bound.kind == "W" and op["op"] == "update" and (op.get("fault") or op.get("env")) \
                and getattr(bound, "mutate", None) is not None:
            return self._faulted_update(bound, op, zr, entry)
        if bound.kind == "W" and op["op"] == "update" and getattr(bound, "mutate", None) is not None:
            # the user's parameter change, then the renormalisation with the other shells watched
            class _B:
                pass

            m = _B()
            m.call = bound.mutate
            mo, _, mch, _ = self._call(m, None)
            if mo[0] == "raise":
                self._o2(bound, mo, zr, "parameter update")
                entry["out"] = outcome_digest(mo)
                entry["cls"] = outcome_class(mo)
                return entry
            bystanders = self._bystanders(bound.touched)
            r = _B()
            r.call = bound.renorm
            out, value, changed, _ = self._call(r, None)
            entry["out"] = outcome_digest(out)
            entry["cls"] = outcome_class(out)
            if changed:
                raise Violation(["C19"], "O1-ambient", "assign_norm_cont", "renormalisation changed error state: " + changed)
            self._check_bystanders(bystanders, "renormalisation")
            self._o2(bound, out, zr, "parameter update + renormalisation")
            if out[0] == "ok":
                self._o4(bound.touched, bound.label)
                self._o6_twin(bound.touched, bound.label, op)
            return entry
        if bound.kind == "W":
            pre_args = snap(tuple(bound.args))
            out, value, changed, _ = self._call(bound, None)
            entry["out"] = outcome_digest(out)
            entry["cls"] = outcome_class(out)
            if changed:
                raise Violation(["C19"], "O1-ambient", bound.label, "state-building call changed error state: " + changed)
            if bound.importy or op["op"] == "query":
                post_args = snap(tuple(bound.args))
                if post_args != pre_args:
                    idx = [i for i, (a, b) in enumerate(zip(pre_args[2], post_args[2])) if a != b]
                    raise Violation(["C18", "C19"] if bound.importy else ["C19"], "O1-args", bound.label,
                                    f"argument(s) {idx} differ after the call ({describe(out)}): "
                                    f"{_short(pre_args[2][idx[0]] if idx else pre_args)} -> "
                                    f"{_short(post_args[2][idx[0]] if idx else post_args)}")
            self._o2(bound, out, zr, "state-building call")
            self._o2_pristine(bound, out, None, "kept import call")
            if bound.importy or op["op"] == "query":
                self._check_held_results(bound)
            if out[0] == "ok" and bound.post:
                bound.post(value)
            if bound.importy:
                self._o5(bound, out, value, "kept import call")
            if out[0] == "ok":
                if op["op"] == "new_shell":
                    self._o4([value], bound.label)
                elif op["op"] == "update":
                    self._o4(bound.touched, bound.label)
                    self._o6_twin(bound.touched, bound.label, op)
                elif op["op"] in ("make_contr", "from_pyscf") and isinstance(value, tuple):
                    self._o4(list(value)[:6], bound.label)
            return entry

        # ---- query
        env = op.get("env")
        fault = op.get("fault")
        pre_args = snap(tuple(bound.args))
        pre_pool = w.digest()
        ref = self.zy.eval(env)
        kinds = []
        if op.get("invalid"):
            kinds.append("invalid_args")
            self.bump(self.configured, "invalid_args")
        if env:
            for k, name in (("np", "ambient_fp"), ("warn", "warnings_as_errors"), ("sp", "special_fn_raise")):
                if k in env:
                    self.bump(self.configured, name)
        fired_site = None
        if fault and fault["kind"] == "line" and self.traced_events > EVENT_BUDGET:
            self.bump(self.stats, "line_fault_skipped_event_budget")
            fault = None
        if fault and fault["kind"] == "line":
            self.bump(self.configured, "line_fault")
            watch = [a for a in bound.args if isinstance(a, np.ndarray) and a.nbytes <= 4096][:6]

            def sampler():
                return (ambient_state(), tuple(hash(a.tobytes()) for a in watch))

            dry = Tracer(self.api.pkgdir, target=None, sampler=sampler, cheap=cheap_ambient)
            out, value = self._checked_call(bound, env, pre_args, pre_pool, tracer=dry, what="call")
            self._o2(bound, out, ref, "call (traced, no fault)", env)
            self._o2_pristine(bound, out, env, "call")
            self._o5(bound, out, value, "call", env)
            entry["dry"] = outcome_digest(out)
            self.traced_events += dry.n
            if self.traced_events > EVENT_BUDGET:
                k, info = None, "event budget of the run exhausted"
                self.bump(self.stats, "line_fault_skipped_event_budget")
            else:
                k, info = choose_fault_event(dry.events, dry.dirty, fault["strategy"], fault["d"])
            if k is None:
                self.bump(self.stats, "line_fault_not_placed")
            else:
                ft = Tracer(self.api.pkgdir, target=k)
                fout, fvalue = self._checked_call(bound, env, pre_args, pre_pool, tracer=ft, what="aborted call")
                if ft.fired:
                    self.bump(self.fired, "line_fault")
                    fired_site = "%s:%d" % (ft.fired[0], ft.fired[1])
                    self.fault_sites.add((bound.label, fired_site))
                    if info.get("in_dirty_window"):
                        self.bump(self.stats, "probe_fault_in_dirty_window")
                    kinds.append("line_fault")
                if fout[0] == "raise" and fout[1] == "SimFault":
                    pass
                else:
                    if ft.fired:
                        self.bump(self.stats, "probe_fault_swallowed_by_library")
                    self._o2(bound, fout, ref, "call with injected fault that did not propagate", env)
                entry["fault"] = [fired_site, outcome_class(fout)]
            # O3: recovery under default ambient state
            ref0 = self.zy.eval(None) if env else ref
            rout, rvalue = self._checked_call(bound, None, pre_args, pre_pool, what="call after fault")
            self._o2(bound, rout, ref0, "O3 recovery call after an aborted call")
            self._o5(bound, rout, rvalue, "call after fault")
            out, value = rout, rvalue
        elif fault and fault["kind"] == "fs":
            self.bump(self.configured, "fs_fault")
            before = dict(self.fs.fired)
            fout, fvalue = self._checked_call(bound, env, pre_args, pre_pool, fs_fault=fault["which"],
                                              what="call with I/O fault")
            fired = self.fs.fired != before
            if fired:
                kinds.append("fs_fault")
                self.bump(self.fired, "fs_open_error" if fault["which"].startswith("open") else "fs_read_error")
                if not (fout[0] == "raise" and fout[1] in ("OSError", "PermissionError")):
                    self.bump(self.stats, "probe_fault_swallowed_by_library")
                    self._o2(bound, fout, ref, "call with injected I/O fault that did not propagate", env)
            else:
                self._o2(bound, fout, ref, "call", env)
            if self.fs.open_handles != 0 and self.fs.seam:
                self.bump(self.stats, "probe_file_handle_left_open")
                self.fs.open_handles = 0
            entry["fault"] = [fault["which"], outcome_class(fout)]
            ref0 = self.zy.eval(None) if env else ref
            out, value = self._checked_call(bound, None, pre_args, pre_pool, what="call after I/O fault")
            self._o2(bound, out, ref0, "O3 recovery call after an I/O fault")
            self._o5(bound, out, value, "call after I/O fault")
        else:
            out, value = self._checked_call(bound, env, pre_args, pre_pool)
            self._o2(bound, out, ref, "call", env)
            self._o2_pristine(bound, out, env, "call")
            self._o5(bound, out, value, "call", env)
            if env and self._ambient_exc(out):
                # repeating the call under the *unchanged* hostile state must raise again: an exception that
                # exists only because of the ambient state is tolerated, one that happens once is history
                rep, _ = self._checked_call(bound, env, pre_args, pre_pool, what="repeated call")
                if not (rep[0] == "raise" and rep[1] == out[1]):
                    raise Violation(["C18", "C19"] if bound.importy else ["C19"], "O2-repeat", bound.label,
                                    f"the same call repeated at once under the same ambient state: first "
                                    f"{describe(out)}, then {describe(rep)}")
                self.bump(self.stats, "o2_repeat_under_hostile_state")
            if env and out[0] == "raise":
                # did the hostile ambient state cause it?  (fired = reference under default differs)
                ref0 = self.zy.eval(None)
                if outcome_class(ref0) != outcome_class(out):
                    for k, name in (("np", "ambient_fp"), ("warn", "warnings_as_errors"), ("sp", "special_fn_raise")):
                        if k in env:
                            self.bump(self.fired, name)
                            kinds.append(name)
                    rout, rvalue = self._checked_call(bound, None, pre_args, pre_pool, what="call after hostile state")
                    self._o2(bound, rout, ref0, "O3 recovery call after a raise under hostile ambient state")
                    self._o5(bound, rout, rvalue, "call after hostile state")
                    out, value = rout, rvalue
        if op.get("invalid") and out[0] == "raise":
            self.bump(self.fired, "invalid_args")
        twin = getattr(bound, "twin_call", None)
        if twin is not None and out[0] == "ok" and not env:
            with Ambient(None):
                try:
                    tout = outcome_ok(twin())
                except Exception as exc:  # noqa: BLE001
                    tout = outcome_raise(exc)
            try:
                compare_outcomes(out, tout, self.stats)
            except Mismatch as m:
                raise Violation(["C19"], "O6", bound.label,
                                f"a retained instance and an instance built now from the same basis disagree: {m}")
            self.bump(self.stats, "o6_retained_instance_comparisons")
        entry["out"] = outcome_digest(out)
        entry["cls"] = outcome_class(out)
        entry["kinds"] = kinds
        self.triples.add((bound.label, _env_class(env), outcome_class(out)))
        self._check_held_results(bound)
        if out[0] == "ok" and isinstance(value, (np.ndarray, tuple, list, dict)):
            if isinstance(value, np.ndarray) and len(w.results) < 64:
                w.results.append(value)
            if len(self.held) < 24:
                self.held.append([value, snap(value), bound.label, bound.importy])
        return entry

    def _check_held_results(self, bound):
        """Results handed out earlier belong to the user; a later call must not change them."""
        for h in self.held:
            now = snap(h[0])
            if now != h[1]:
                if isinstance(h[0], np.ndarray) and any(h[0] is r for r in self.world.scribbled):
                    h[1] = now  # the user's own scribble
                    continue
                props = ["C18", "C19"] if (h[3] or bound.importy) else ["C19"]
                raise Violation(props, "O1-result", bound.label,
                                f"a value returned earlier by {h[2]} and held by the user was changed by this call: "
                                f"{_short(h[1])} -> {_short(now)}")
        self.world.scribbled = []

    def _bystanders(self, touched):
        """Shells of the pool that the update does not concern (share neither exponents nor coefficients with
        the updated arrays), with their snapshots: renormalising the touched shells must leave them alone."""
        from .canon import shell_snap

        tid = {id(s) for s in touched}
        out = []
        for e in self.world.shells:
            if id(e.obj) not in tid:
                out.append((e.obj, shell_snap(e.obj)))
        return out

    def _check_bystanders(self, before, what):
        from .canon import shell_snap

        for sh, sn in before:
            now = shell_snap(sh)
            if now != sn:
                raise Violation(["C19"], "O1-pool", "assign_norm_cont",
                                f"{what} changed a shell that was not being renormalised: {_short(sn, 300)} -> "
                                f"{_short(now, 300)}")

    def _faulted_update(self, bound, op, zr, entry):
        """Parameter update whose renormalisation is aborted / runs under hostile ambient state.

        The parameter change itself is the user's action.  ``assign_norm_cont`` may fail, but it must
        not leave the shell's *parameters* or the ambient state changed; the next, undisturbed
        renormalisation must give what the history-free world has.
        """
        from .canon import shell_snap

        def params(sh):
            return tuple(x for x in shell_snap(sh) if not (isinstance(x, tuple) and x and x[0] == "norm_cont"))

        class _B:  # minimal bound for _call
            pass

        m = _B()
        m.call = bound.mutate
        out, touched, changed, _ = self._call(m, None)
        if out[0] == "raise":
            self._o2(bound, out, zr, "parameter update")
            entry["out"] = outcome_digest(out)
            entry["cls"] = outcome_class(out)
            return entry
        touched = bound.touched
        before = [params(sh) for sh in touched]
        bystanders = self._bystanders(touched)
        env, fault = op.get("env"), op.get("fault")
        r = _B()
        r.call = bound.renorm

        def check(what, o, amb_changed):
            if amb_changed:
                raise Violation(["C19"], "O1-ambient", "assign_norm_cont",
                                f"process-wide error state differs after the {what} ({describe(o)}): {amb_changed}")
            for sh, b in zip(touched, before):
                if params(sh) != b:
                    raise Violation(["C19"], "O1-renorm", "assign_norm_cont",
                                    f"shell parameters differ after the {what} ({describe(o)}): "
                                    f"{_short(b, 300)} -> {_short(params(sh), 300)}")

        kinds = []
        if fault and fault["kind"] == "line" and self.traced_events <= EVENT_BUDGET:
            self.bump(self.configured, "line_fault")
            dry = Tracer(self.api.pkgdir, target=None, sampler=ambient_state, cheap=cheap_ambient)
            o, _, ch, _ = self._call(r, env, tracer=dry)
            check("renormalisation", o, ch)
            self.traced_events += dry.n
            k, info = choose_fault_event(dry.events, dry.dirty, fault["strategy"], fault["d"])
            if k is not None:
                ft = Tracer(self.api.pkgdir, target=k)
                o, _, ch, _ = self._call(r, env, tracer=ft)
                if ft.fired:
                    self.bump(self.fired, "line_fault")
                    self.bump(self.stats, "probe_renormalisation_aborted")
                    self.fault_sites.add(("assign_norm_cont", "%s:%d" % (ft.fired[0], ft.fired[1])))
                    kinds.append("line_fault")
                check("aborted renormalisation", o, ch)
                entry["fault"] = ["%s:%d" % (ft.fired[0], ft.fired[1]) if ft.fired else None, outcome_class(o)]
        elif env:
            o, _, ch, _ = self._call(r, env)
            if o[0] == "raise":
                self.bump(self.stats, "probe_renormalisation_raised_under_hostile_state")
            check("renormalisation under hostile ambient state", o, ch)
        # undisturbed renormalisation: must agree with the history-free world and be unit-normalised
        o, value, ch, _ = self._call(r, None)
        check("renormalisation", o, ch)
        self._check_bystanders(bystanders, "renormalisation")
        self._o2(bound, o, zr, "renormalisation after an aborted one")
        if o[0] == "ok":
            self._o4(touched, bound.label)
            self._o6_twin(touched, bound.label, op)
        entry["out"] = outcome_digest(o)
        entry["cls"] = outcome_class(o)
        entry["kinds"] = kinds
        return entry

    # ------------------------------------------------------------------ whole history
    def run(self, ops):
        nops = 0
        for i, op in enumerate(ops):
            if self.cfg.get("mode") == "sweep" and self.traced_events > EVENT_BUDGET:
                self.log.append({"i": i, "truncated": "event budget exhausted"})
                self.bump(self.stats, "sweep_truncated_event_budget")
                break
            try:
                entry = self.step(i, op)
            except Violation as v:
                vd = v.as_dict(i)
                if set(v.props) & self.stop_props:
                    self.violation = vd
                    self.log.append({"i": i, "op": op["op"], "violation": vclass(vd)})
                    break
                self.other_violations.append(vd)
                self.log.append({"i": i, "op": op["op"], "other_violation": vclass(vd)})
                if v.oracle in ("O5", "O1-ambient", "O4"):
                    continue  # worlds are still consistent
                break
            nops += 1
            self.log.append(entry)
        return nops


def _strip_ids(x):
    """Snapshots carry id()s of container members; they are not reproducible, keep them out of messages."""
    if isinstance(x, tuple):
        if len(x) == 3 and x[0] in ("list", "tuple") and isinstance(x[1], tuple):
            return (x[0], _strip_ids(x[2]))
        if len(x) == 4 and x[0] == "dict":
            return ("dict", x[1], _strip_ids(x[3]))
        if len(x) == 3 and isinstance(x[1], int) and isinstance(x[2], tuple) and x[2][:1] == ("nd",):
            return (x[0], x[2])
        return tuple(_strip_ids(y) for y in x)
    return x


def _short(x, n=160):
    s = repr(_strip_ids(x))
    return s if len(s) <= n else s[:n] + "..."


def _pool_diff(a, b):
    if a[1] != b[1]:
        return "file system content changed"
    sa, sb = a[0], b[0]
    try:
        idx = [i for i, (x, y) in enumerate(zip(sa[2], sb[2])) if x != y]
        return f"pool object #{idx[0]}: {_short(sa[2][idx[0]])} -> {_short(sb[2][idx[0]])}"
    except Exception:  # noqa: BLE001
        return "pool snapshot differs"


def _env_class(env):
    if not env:
        return "default"
    return "+".join(sorted(env.keys()))


def execute(profile, seed, ops=None, cfg=None, stop_props=None, mode="random"):
    """Run one history in the current process (meant to be a forked run process). JSON-able result."""
    if ops is None:
        cfg, ops = gen.history_for(profile, mode, seed)
    stop_props = stop_props or [profile]
    run = Run(profile, cfg, stop_props)
    try:
        nops = run.run(ops)
    finally:
        run.close()
    logbytes = json.dumps(run.log, sort_keys=True).encode()
    shared = sum(1 for v in run.obj_use.values() if v >= 2)
    sig = tuple((e.get("callee"), tuple(e.get("kinds", [])), e.get("cls")) for e in run.log if "callee" in e)
    stats = dict(run.stats)
    for k, v in run.world.probes.items():
        stats["probe_" + k] = v
    trigrams = set()
    kinds_seq = [str(e.get("callee") or e.get("op") or "-") for e in run.log]
    for a, b, c in zip(kinds_seq, kinds_seq[1:], kinds_seq[2:]):
        trigrams.add((a, b, c))
    return {
        "seed": seed,
        "profile": profile,
        "mode": mode,
        "cfg": cfg,
        "n_ops": len(ops),
        "executed": nops,
        "digest": hashlib.sha256(logbytes).hexdigest(),
        "opsdigest": hashlib.sha256(json.dumps(ops, sort_keys=True).encode()).hexdigest(),
        "violation": run.violation,
        "other_violations": run.other_violations,
        "stats": stats,
        "fired": run.fired,
        "configured": run.configured,
        "fault_sites": sorted(run.fault_sites),
        "triples": sorted(run.triples),
        "trigrams": sorted(trigrams),
        "shared_objects": shared,
        "signature": hashlib.sha256(repr(sig).encode()).hexdigest()[:16],
        "log": run.log,
        "ops": ops,
    }
