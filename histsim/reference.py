"""The history-free world (oracle O2).

The run process forks a *zygote* before its first operation.  The zygote resolves every operation
exactly like the run does and applies the state-building ones, but it never executes a query in
its own address space: for each reference request it forks a short-lived child that performs the
call under the requested ambient configuration and sends the canonical outcome back.  All pipes
are blocking, so the process tree adds no nondeterminism.
"""
import os
import pickle
import struct

from .canon import outcome_ok, outcome_raise
from .faults import Ambient


def _send(fd, obj):
    data = pickle.dumps(obj, protocol=pickle.HIGHEST_PROTOCOL)
    os.write(fd, struct.pack("<Q", len(data)))
    mv = memoryview(data)
    while mv:
        n = os.write(fd, mv[: 1 << 16])
        mv = mv[n:]


def _recv(fd):
    hdr = b""
    while len(hdr) < 8:
        chunk = os.read(fd, 8 - len(hdr))
        if not chunk:
            raise EOFError("reference process closed the pipe")
        hdr += chunk
    (n,) = struct.unpack("<Q", hdr)
    buf = bytearray()
    while len(buf) < n:
        chunk = os.read(fd, min(1 << 20, n - len(buf)))
        if not chunk:
            raise EOFError("reference process closed the pipe")
        buf += chunk
    return pickle.loads(bytes(buf))


def exec_plain(bound, env):
    """Execute a bound call under an ambient configuration; returns (outcome, value-or-None)."""
    with Ambient(env):
        try:
            value = bound.call()
        except Exception as exc:  # noqa: BLE001 - any exception is an outcome
            return outcome_raise(exc), None
        return outcome_ok(value), value


class Zygote:
    def __init__(self, make_fs):
        from .world import World, resolve

        to_child_r, to_child_w = os.pipe()
        from_child_r, from_child_w = os.pipe()
        pid = os.fork()
        if pid == 0:
            code = 0
            try:
                os.close(to_child_w)
                os.close(from_child_r)
                fs = make_fs()
                try:
                    self._serve(World(fs, history_side=False), resolve, to_child_r, from_child_w)
                finally:
                    fs.cleanup()
            except BaseException:  # noqa: BLE001
                import traceback

                traceback.print_exc()
                code = 3
            finally:
                os._exit(code)
        os.close(to_child_r)
        os.close(from_child_w)
        self.pid = pid
        self._w = to_child_w
        self._r = from_child_r

    @staticmethod
    def _serve(world, resolve, rfd, wfd):
        current = None
        while True:
            try:
                msg = _recv(rfd)
            except EOFError:
                return
            cmd = msg["cmd"]
            if cmd == "quit":
                return
            if cmd == "op":
                try:
                    bound = resolve(world, msg["op"])
                except Exception as exc:  # noqa: BLE001
                    import traceback

                    _send(wfd, ("harness", traceback.format_exc()))
                    continue
                if bound.skip:
                    _send(wfd, ("skip",))
                elif bound.kind == "W":
                    outcome, value = exec_plain(bound, None)
                    if outcome[0] == "ok" and bound.post:
                        bound.post(value)
                    _send(wfd, outcome)
                elif bound.kind == "noise":
                    _send(wfd, ("noise",))
                else:
                    current = bound
                    _send(wfd, ("resolved",))
            elif cmd == "eval":
                r, w = os.pipe()
                pid = os.fork()
                if pid == 0:
                    code = 0
                    try:
                        os.close(r)
                        outcome, _ = exec_plain(current, msg["env"])
                        _send(w, outcome)
                    except BaseException:  # noqa: BLE001
                        import traceback

                        try:
                            _send(w, ("harness", traceback.format_exc()))
                        except BaseException:  # noqa: BLE001
                            code = 4
                    finally:
                        os._exit(code)
                os.close(w)
                try:
                    out = _recv(r)
                except EOFError:
                    out = ("harness", "reference child died without an answer")
                os.close(r)
                os.waitpid(pid, 0)
                _send(wfd, out)
            else:
                _send(wfd, ("harness", f"unknown command {cmd}"))

    def op(self, op):
        _send(self._w, {"cmd": "op", "op": op})
        return _recv(self._r)

    def eval(self, env):
        _send(self._w, {"cmd": "eval", "env": env})
        return _recv(self._r)

    def close(self):
        try:
            _send(self._w, {"cmd": "quit"})
        except OSError:
            pass
        try:
            os.close(self._w)
            os.close(self._r)
        except OSError:
            pass
        try:
            os.waitpid(self.pid, 0)
        except ChildProcessError:
            pass
