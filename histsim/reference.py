"""The history-free world (oracle O2).

The run process forks a *zygote* before its first operation.  The zygote resolves every operation
exactly like the run does and applies the state-building ones, but it never executes a query in
its own address space: for each reference request it forks a short-lived child that performs the
call under the requested ambient configuration and sends the canonical outcome back.  All pipes
are blocking, so the process tree adds no nondeterminism.
"""
import os
import pickle
import struct

from .canon import outcome_ok, outcome_raise
from .faults import Ambient


def _send(fd, obj):
    data = pickle.dumps(obj, protocol=pickle.HIGHEST_PROTOCOL)
    os.write(fd, struct.pack("<Q", len(data)))
    mv = memoryview(data)
    while mv:
        n = os.write(fd, mv[: 1 << 16])
        mv = mv[n:]


def _recv(fd):
    hdr = b""
    while len(hdr) < 8:
        chunk = os.read(fd, 8 - len(hdr))
        if not chunk:
            raise EOFError("reference process closed the pipe")
        hdr += chunk
    (n,) = struct.unpack("<Q", hdr)
    buf = bytearray()
    while len(buf) < n:
        chunk = os.read(fd, min(1 << 20, n - len(buf)))
        if not chunk:
            raise EOFError("reference process closed the pipe")
        buf += chunk
    return pickle.loads(bytes(buf))


def exec_plain(bound, env):
    """Execute a bound call under an ambient configuration; returns (outcome, value-or-None)."""
    with Ambient(env):
        try:
            value = bound.call()
        except Exception as exc:  # noqa: BLE001 - any exception is an outcome
            return outcome_raise(exc), None
        return outcome_ok(value), value


PRISTINE_APPLY = ("write_file", "new_mole", "new_iodata")
PRISTINE_QUERY = ("parse", "from_pyscf", "from_iodata")


def _value_from_canon(c):
    """Rebuild a plain ndarray from its canonical form (used for kept query results)."""
    import numpy as np

    if c[0] == "nd":
        return np.frombuffer(c[3], dtype=c[1]).reshape(c[2]).copy()
    raise ValueError("not an array")


class Zygote:
    """``pristine=False``: the history-free world of DESIGN §3.5-O2 (applies state-building operations,
    evaluates queries in forked children).  ``pristine=True``: a world in which *no library call is
    ever made in-process* - it only mirrors files and stub molecules and answers the three import
    calls whose arguments need no library object (parse_*, from_pyscf, from_iodata)."""

    def __init__(self, make_fs, pristine=False):
        from .world import World, resolve

        self.pristine = pristine

        to_child_r, to_child_w = os.pipe()
        from_child_r, from_child_w = os.pipe()
        pid = os.fork()
        if pid == 0:
            code = 0
            try:
                os.close(to_child_w)
                os.close(from_child_r)
                fs = make_fs()
                try:
                    self._serve(World(fs, history_side=False), resolve, to_child_r, from_child_w, pristine)
                finally:
                    fs.cleanup()
            except BaseException:  # noqa: BLE001
                import traceback

                traceback.print_exc()
                code = 3
            finally:
                os._exit(code)
        os.close(to_child_r)
        os.close(from_child_w)
        self.pid = pid
        self._w = to_child_w
        self._r = from_child_r

    @staticmethod
    def _in_child(fn):
        """Run ``fn`` in a forked child and return what it sends back."""
        r, w = os.pipe()
        pid = os.fork()
        if pid == 0:
            code = 0
            try:
                os.close(r)
                _send(w, fn())
            except BaseException:  # noqa: BLE001
                import traceback

                try:
                    _send(w, ("harness", traceback.format_exc()))
                except BaseException:  # noqa: BLE001
                    code = 4
            finally:
                os._exit(code)
        os.close(w)
        try:
            out = _recv(r)
        except EOFError:
            out = ("harness", "reference child died without an answer")
        os.close(r)
        os.waitpid(pid, 0)
        return out

    @classmethod
    def _serve(cls, world, resolve, rfd, wfd, pristine=False):
        current = None
        while True:
            try:
                msg = _recv(rfd)
            except EOFError:
                return
            cmd = msg["cmd"]
            if cmd == "quit":
                return
            if cmd == "op":
                op = msg["op"]
                if pristine and op["op"] not in PRISTINE_APPLY + PRISTINE_QUERY:
                    _send(wfd, ("skip",))
                    continue
                try:
                    bound = resolve(world, op)
                except Exception:  # noqa: BLE001
                    import traceback

                    _send(wfd, ("harness", traceback.format_exc()))
                    continue
                if bound.skip:
                    _send(wfd, ("skip",))
                elif pristine and op["op"] in PRISTINE_QUERY:
                    current = bound
                    _send(wfd, ("resolved",))
                elif bound.kind == "W" and op["op"] == "query":
                    # a kept query: computed in a child, so that this process never executes it; the
                    # result (a fresh array) is rebuilt from its canonical form
                    outcome = cls._in_child(lambda b=bound: exec_plain(b, None)[0])
                    if outcome[0] == "ok" and bound.post:
                        try:
                            bound.post(_value_from_canon(outcome[1]))
                        except ValueError:
                            pass
                    _send(wfd, outcome)
                elif bound.kind == "W":
                    outcome, value = exec_plain(bound, None)
                    if outcome[0] == "ok" and bound.post:
                        bound.post(value)
                    _send(wfd, outcome)
                elif bound.kind == "noise":
                    _send(wfd, ("noise",))
                else:
                    current = bound
                    _send(wfd, ("resolved",))
            elif cmd == "eval":
                env = msg["env"]
                _send(wfd, cls._in_child(lambda b=current, e=env: exec_plain(b, e)[0]))
            else:
                _send(wfd, ("harness", f"unknown command {cmd}"))

    def op(self, op):
        _send(self._w, {"cmd": "op", "op": op})
        return _recv(self._r)

    def eval(self, env):
        _send(self._w, {"cmd": "eval", "env": env})
        return _recv(self._r)

    def close(self):
        try:
            _send(self._w, {"cmd": "quit"})
        except OSError:
            pass
        try:
            os.close(self._w)
            os.close(self._r)
        except OSError:
            pass
        try:
            os.waitpid(self.pid, 0)
        except ChildProcessError:
            pass
