"""Random basis-set files (NWChem / Gaussian94) with the writer-side model used by oracle O5.

A *spec* is a JSON-able description holding the very number tokens that are written; ``render`` turns
it into text and ``model_of`` into ``{element: [(l, exps, column), ...]}`` (flattened by coefficient
column, file order).  Conventions of well-formedness are those of DESIGN §5.
"""

LETTERS = "spdfghik"
SYMBOLS_1 = ["H", "C", "N", "O", "F", "B", "S", "P", "K", "I"]
SYMBOLS_2 = ["He", "Li", "Be", "Ne", "Na", "Mg", "Al", "Si", "Cl", "Ar", "Ca", "Fe", "Zn", "Kr"]
COMMENT_WORDS = ["basis", "set", "exchange", "version", "reference", "element", "contraction", "data", "end", "END",
                 "BASIS", "of", "the", "part", "spherical", "ecp"]


def _fmt_number(rng, v, style):
    """One number token containing a decimal point; style in plain/E/D/bse."""
    if style == "plain":
        nd = rng.choice([4, 6, 7, 10])
        tok = "%.*f" % (nd, v)
        if float(tok) == 0.0 and v != 0.0:
            tok = "%.10E" % v
        return tok
    if style == "bse":  # 0.dddddddddE+xx as written by the Basis Set Exchange
        tok = "%.9E" % v  # d.dddddddddE+xx
        mant, ex = tok.split("E")
        sign = "-" if mant.startswith("-") else ""
        digits = mant.lstrip("-").replace(".", "")
        e = int(ex) + 1
        if float(digits) == 0:
            e = 0
        return "%s0.%sE%+03d" % (sign, digits, e)
    if style == "odd":  # legal Fortran-style spellings: +1.5  .5  -.25  3.  1.5E+002  1.5D02
        kind = rng.choice(["plus", "nolead", "traildot", "exp3", "expnosign", "plain", "long", "negzero", "nopoint"])
        if kind == "nopoint" and v != 0.0:  # integer mantissa with a signed exponent: 3E+00, -2D-01
            tok = "%.0E" % v
            return tok.replace("E", rng.choice(["E", "D"]))
        if rng.random() < 0.02:  # magnitudes at the edge of the double range are numbers too
            return rng.choice(["1.5E+300", "2.5E-310", "1.0D+308"]) if v >= 0 else "-1.5E+300"
        if kind == "long":  # more digits than a double holds
            return "%.24f" % v if abs(v) < 1e6 else "%.7f" % v
        if kind == "negzero" and v == 0.0:
            return "-0.0000000"
        if kind == "plus":
            tok = "%.6f" % abs(v)
            return ("+" if v >= 0 else "-") + tok
        if kind == "nolead" and 0 < abs(v) < 1:
            tok = "%.8f" % abs(v)
            tok = tok[1:]  # drop the leading zero
            if float(tok) != 0.0:
                return ("-" if v < 0 else "") + tok
        if kind == "traildot" and abs(v) >= 1:
            return ("-" if v < 0 else "") + "%d." % int(abs(v))
        if kind in ("exp3", "expnosign"):
            mant, ex = ("%.7E" % v).split("E")
            e = int(ex)
            letter = rng.choice(["E", "D"])
            if kind == "exp3":
                return "%s%s%+04d" % (mant, letter, e)
            if e >= 0:
                return "%s%s%02d" % (mant, letter, e)
        return "%.7f" % v if abs(v) >= 1e-4 or v == 0 else "%.7E" % v
    nd = rng.choice([3, 6, 10])
    tok = "%.*E" % (nd, v)
    if style == "D":
        tok = tok.replace("E", "D")
    return tok


def _tok_value(tok):
    return float(tok.replace("D", "E"))


def gen_spec(rng, fmt=None, max_elements=5, max_shells=8, max_l=7, max_prims=10, max_cols=6, lead=None):
    fmt = fmt or rng.choice(["nwchem", "gbs"])
    nel = rng.randint(1, max_elements)
    pool = SYMBOLS_1 + SYMBOLS_2
    syms = rng.sample(pool, nel)
    case = rng.choice(["as_is"] * 8 + ["upper", "lower"])  # NWChem tags / Gaussian94 centres in another letter case
    if case == "upper":
        syms = [x.upper() for x in syms]
    elif case == "lower":
        syms = [x.lower() for x in syms]
    style_mode = rng.choice(["mixed", "plain", "E", "D", "bse", "Dbse", "odd", "mixed"])
    elements = []
    for sym in syms:
        shells = []
        nsh = rng.randint(1, max_shells)
        for _ in range(nsh):
            for _attempt in range(20):
                sp = rng.random() < 0.15 and max_l >= 1
                K = rng.randint(1, max_prims)
                if sp:
                    ls, M = [0, 1], 2
                else:
                    ls, M = [min(max_l, _draw_l(rng))], rng.randint(1, max_cols) if rng.random() < 0.5 else 1
                exps_v = sorted((_draw_exp(rng) for _ in range(K)), reverse=True)
                ok = True
                same_as_prev = None
                if not shells and elements and rng.random() < 0.2:
                    # the first shell of an element repeats the last shell of the previous element
                    # (same l, same exponent tokens): legal, and nothing may leak across elements
                    prev_el = elements[-1]["shells"][-1]
                    same_as_prev = list(prev_el["exps"])
                    K = len(same_as_prev)
                    if len(prev_el["l"]) == 1:
                        sp, ls = False, list(prev_el["l"])
                        M = rng.randint(1, max_cols) if rng.random() < 0.5 else 1
                    break
                if shells and rng.random() < 0.12:
                    # the next shell re-uses the very exponent tokens of the previous one (as 6-31G-like sets
                    # do for s and p); identical text, so the Gaussian94 merge rule is unambiguous
                    same_as_prev = list(shells[-1]["exps"])
                    K = len(same_as_prev)
                    break
                if fmt == "gbs" and shells:
                    prev = shells[-1]
                    if len(prev["exps"]) == K:
                        pv = [_tok_value(t) for t in prev["exps"]]
                        # a *different* consecutive shell must not look equal to np.allclose
                        if all(abs(a - b) <= 1e-2 * max(abs(a), abs(b)) + 1e-6 for a, b in zip(pv, exps_v)):
                            ok = False
                if ok:
                    break
            else:
                continue

            def style():
                if style_mode == "mixed":
                    return rng.choice(["plain", "E", "D", "bse", "odd"])
                if style_mode == "Dbse":
                    return "bse"
                return style_mode

            exps_t = [_fmt_number(rng, v, style()) for v in exps_v]
            if same_as_prev is not None:
                exps_t = same_as_prev
            cols_t = []
            for _m in range(M):
                col = []
                for _k in range(K):
                    c = rng.uniform(-1.5, 1.5)
                    if rng.random() < 0.1:
                        c = rng.choice([1.0, 0.0, -1.0])
                    if rng.random() < 0.05:
                        c *= 1e-4
                    col.append(_fmt_number(rng, c, style()))
                cols_t.append(col)
            if style_mode == "Dbse" and same_as_prev is None:
                exps_t = [t.replace("E", "D") for t in exps_t]
                cols_t = [[t.replace("E", "D") for t in col] for col in cols_t]
            shells.append({"l": ls, "exps": exps_t, "cols": cols_t})
        if not shells:
            shells.append({"l": [0], "exps": ["1.0000000"], "cols": [["1.0000000"]]})
        elements.append({"sym": sym, "shells": shells})
    if lead is None:
        lead = rng.choice([0, 0, 1, 1, 2, "many"])
    cchar = "#" if fmt == "nwchem" else "!"
    if lead == 0:
        lead_lines = []
    elif lead == 1:
        if fmt == "gbs":
            lead_lines = [rng.choice(["****", cchar + " " + _comment(rng), ""])]
        else:
            lead_lines = [rng.choice(['BASIS "ao basis" PRINT', cchar + " " + _comment(rng), ""])]
    else:
        n = 2 if lead == 2 else rng.randint(3, 12)
        lead_lines = [cchar + "-" * 40]
        while len(lead_lines) < n - 1:
            lead_lines.append(rng.choice([cchar + " " + _comment(rng), "", cchar]))
        lead_lines.append("****" if fmt == "gbs" else 'BASIS "ao basis" SPHERICAL PRINT')
    layout = {
        "indent": rng.choice([0, 2, 6, 11]),
        "sep": rng.choice([2, 4, 7, 12]),
        "hdr_sep": rng.choice([1, 2, 4, 5]),
        "comments": rng.random() < 0.5,
        "blanks": rng.random() < 0.4,
        "trail": rng.choice(["END", "", "nl", "none"]),
        "noise_seed": rng.randrange(1 << 30),
        "inner": rng.choice([0.0, 0.0, 0.15, 0.4]),  # comment / blank lines *inside* shell blocks
        "scale_field": rng.choice(["1.00", "1.00", "1.00", "1.0", "1.20", "0.95"]),  # third field of a Gaussian94 header
        "respell": rng.random() < 0.3,
        "row_sep": rng.choice(["spaces"] * 4 + ["tab", "mixed"]),  # separator between the numbers of a row
        "hdr_indent": rng.choice([0, 0, 0, 1, 3]),  # element / shell header lines may be indented as well
        "sections": rng.random() < 0.15,  # NWChem: the file consists of several BASIS ... END sections
        "interleave": rng.random() < 0.12,  # NWChem: blocks of different elements interleaved; Gaussian94: an element
                                            # heading two separate sections  # later blocks of a generalized contraction spell the same exponents differently
    }
    return {"fmt": fmt, "lead": lead_lines, "elements": elements, "layout": layout}


def _draw_l(rng):
    r = rng.random()
    if r < 0.5:
        return rng.randint(0, 2)
    if r < 0.8:
        return rng.randint(3, 4)
    return rng.randint(5, 7)


def _draw_exp(rng):
    import math

    return math.exp(rng.uniform(math.log(0.02), math.log(5.0e4)))


def _comment(rng):
    return " ".join(rng.choice(COMMENT_WORDS) for _ in range(rng.randint(1, 5)))


def plan(spec):
    """Order in which the blocks are written: a list of (element index, [shell indices]) sections.

    Normally one section per element.  With ``interleave`` the shells of the elements are interleaved
    (NWChem: every shell block carries its element tag) or an element heads two separate sections
    (Gaussian94); the order of the shells *of one element* is never changed, so the model is the same."""
    import random

    lay = spec["layout"]
    els = spec["elements"]
    sections = [(ei, list(range(len(el["shells"])))) for ei, el in enumerate(els)]
    if not lay.get("interleave") or len(els) < 2:
        return sections
    prng = random.Random(lay["noise_seed"] ^ 0x1EAF)
    if spec["fmt"] == "nwchem":
        queues = [list(sec[1]) for sec in sections]
        out = []
        # element 0 starts; afterwards pick any element that still has blocks (per-element order kept)
        order = [0]
        while any(queues):
            live = [k for k, q in enumerate(queues) if q]
            k = order.pop() if order and order[-1] in live else prng.choice(live)
            out.append((k, [queues[k].pop(0)]))
        return out
    # Gaussian94: split one element with at least two shells into two sections, the second one later
    cands = [k for k, sec in enumerate(sections) if len(sec[1]) >= 2 and k < len(sections) - 1]
    if not cands:
        return sections
    k = prng.choice(cands)
    cut = prng.randint(1, len(sections[k][1]) - 1)
    first, second = sections[k][1][:cut], sections[k][1][cut:]
    pos = prng.randint(k + 1, len(sections) - 1)
    out = sections[:k] + [(k, first)] + sections[k + 1: pos + 1] + [(k, second)] + sections[pos + 1:]
    return out


def render(spec):
    import random

    fmt = spec["fmt"]
    lay = spec["layout"]
    nrng = random.Random(lay["noise_seed"])
    cchar = "#" if fmt == "nwchem" else "!"
    ind = " " * lay["indent"]
    sep = " " * lay["sep"]
    if lay.get("row_sep") == "tab":
        sep = "\t"
    elif lay.get("row_sep") == "mixed":
        sep = " \t "
    hsep = " " * lay["hdr_sep"]
    hind = " " * lay.get("hdr_indent", 0)
    lines = list(spec["lead"])
    p_inner = lay.get("inner", 0.0)
    scale_field = lay.get("scale_field", "1.00")

    def inner():
        if p_inner and nrng.random() < p_inner:
            return [nrng.choice([cchar + " " + _comment(nrng), "", cchar])]
        return []

    def rows(sh, cols):
        out = []
        K = len(sh["exps"])
        out.extend(inner())
        for k in range(K):
            out.append(ind + sep.join([sh["exps"][k]] + [col[k] for col in cols]))
            out.extend(inner())
        return out

    def noise():
        out = []
        if fmt == "nwchem" and lay.get("sections") and nrng.random() < 0.3:
            out += ["END", 'BASIS "ao basis" PRINT']  # several BASIS ... END sections in one file
        if lay["comments"] and nrng.random() < 0.4:
            out.append(cchar + "BASIS SET: " + _comment(nrng))
        if lay["blanks"] and nrng.random() < 0.3:
            out.append("")
        return out

    first = True
    for ei, shell_ids in plan(spec):
        el = spec["elements"][ei]
        if fmt == "gbs":
            if not first:
                lines.append("****")
                lines.extend(noise())
            lines.append(hind + el["sym"] + hsep + "    0")
        for si in shell_ids:
            sh = el["shells"][si]
            letters = "".join(LETTERS[l] for l in sh["l"]).upper()
            K = len(sh["exps"])
            if fmt == "nwchem":
                if not (first and not spec["lead"]):
                    lines.extend(noise())
                lines.append(hind + el["sym"] + hsep + letters)
                lines.extend(rows(sh, sh["cols"]))
            else:
                if len(sh["l"]) == 2:  # SP: one block, two coefficient columns
                    lines.append(hind + letters + hsep + str(K) + hsep + scale_field)
                    lines.extend(rows(sh, sh["cols"]))
                else:  # M columns are written as M consecutive blocks with identical exponents
                    for ci, col in enumerate(sh["cols"]):
                        lines.append(hind + letters + hsep + str(K) + hsep + scale_field)
                        if ci and lay.get("respell"):
                            lines.extend(rows(dict(sh, exps=[respell(t) for t in sh["exps"]]), [col]))
                        else:
                            lines.extend(rows(sh, [col]))
            first = False
    if fmt == "gbs":
        lines.append("****")
    tr = lay["trail"]
    if tr == "END" and fmt == "nwchem":
        lines.append("END")
    text = "\n".join(lines)
    if tr != "none":
        text += "\n"
    if tr == "nl":
        text += "\n"
    return text


def tweak_same_length(spec, d):
    """A revision of the file with exactly the same length: one digit of one coefficient token is changed."""
    import copy

    ns = copy.deepcopy(spec)
    toks = []
    for ei, el in enumerate(ns["elements"]):
        for si, sh in enumerate(el["shells"]):
            for ci, col in enumerate(sh["cols"]):
                for ki in range(len(col)):
                    toks.append((ei, si, ci, ki))
    if not toks:
        return None
    for off in range(len(toks)):
        ei, si, ci, ki = toks[(d + off) % len(toks)]
        tok = ns["elements"][ei]["shells"][si]["cols"][ci][ki]
        mant_end = max(tok.find("E"), tok.find("D"))
        mant = tok if mant_end < 0 else tok[:mant_end]
        for pos in range(len(mant) - 1, -1, -1):
            if mant[pos].isdigit():
                new = tok[:pos] + str((int(mant[pos]) + 1 + d % 8) % 10) + tok[pos + 1:]
                if _tok_value(new) != _tok_value(tok):
                    ns["elements"][ei]["shells"][si]["cols"][ci][ki] = new
                    return ns
    return None


def respell(tok):
    """Another spelling of exactly the same decimal number (so that it parses to the same double)."""
    from decimal import Decimal

    d = Decimal(tok.replace("D", "E"))
    out = "%E" % d if False else format(d, "E")
    if "." not in out.split("E")[0]:
        mant, ex = out.split("E")
        out = mant + ".0E" + ex
    return out


def model_of(spec):
    """{element: [(l, [exps], [column]), ...]} flattened by column, file order (elements by first appearance)."""
    out = {}
    for ei, shell_ids in plan(spec):
        el = spec["elements"][ei]
        seq = out.setdefault(el["sym"], [])
        for si in shell_ids:
            sh = el["shells"][si]
            exps = [_tok_value(t) for t in sh["exps"]]
            if len(sh["l"]) == 2:
                for l, col in zip(sh["l"], sh["cols"]):
                    seq.append((l, exps, [_tok_value(t) for t in col]))
            else:
                for col in sh["cols"]:
                    seq.append((sh["l"][0], exps, [_tok_value(t) for t in col]))
    return out


def flatten_parsed(parsed):
    """Bring the dictionary returned by a parser to the same flattened form (floats via float())."""
    import numpy as np

    out = {}
    for sym, shells in parsed.items():
        seq = out.setdefault(sym, [])
        for entry in shells:
            l, exps, coeffs = entry
            exps_l = [float(x) for x in np.asarray(exps).ravel()]
            c = np.asarray(coeffs)
            if c.ndim == 1:
                seq.append((int(l), exps_l, [float(x) for x in c]))
            else:
                for j in range(c.shape[1]):
                    seq.append((int(l), exps_l, [float(x) for x in c[:, j]]))
    return out
