"""Campaigns: many seeded runs over a process pool, minimisation, replay files, evidence."""
import concurrent.futures as cf
import faulthandler
import hashlib
import json
import multiprocessing
import os
import pickle
import select
import signal
import subprocess
import sys
import time
import traceback

VERIF = os.path.dirname(os.path.dirname(os.path.abspath(__file__)))
OUT = os.environ.get("VERIF_OUT") or VERIF  # where replays/ and evidence/ are written (scratch runs set VERIF_OUT)
RUN_TIMEOUT = 600  # backstop only; typical runs take well under a second, the slowest seen ~20 s uncontended


def _child_main(wfd, profile, seed, ops, cfg, stop_props, mode):
    code = 0
    try:
        os.setpgid(0, 0)
        faulthandler.enable()
        signal.alarm(RUN_TIMEOUT)
        from . import runner
        from .api import HarnessError

        try:
            res = runner.execute(profile, seed, ops=ops, cfg=cfg, stop_props=stop_props, mode=mode)
        except HarnessError as exc:
            res = {"harness_error": f"HarnessError: {exc}", "seed": seed}
        except BaseException:  # noqa: BLE001
            res = {"harness_error": traceback.format_exc(), "seed": seed}
        data = pickle.dumps(res)
        mv = memoryview(data)
        while mv:
            n = os.write(wfd, mv[: 1 << 16])
            mv = mv[n:]
    except BaseException:  # noqa: BLE001
        code = 5
    finally:
        os._exit(code)


def forked_run(profile, seed, ops=None, cfg=None, stop_props=None, mode="random", timeout=RUN_TIMEOUT + 20):
    """Execute one history in a forked run process; the caller must have loaded the library already."""
    r, w = os.pipe()
    pid = os.fork()
    if pid == 0:
        os.close(r)
        _child_main(w, profile, seed, ops, cfg, stop_props, mode)
    os.close(w)
    chunks = []
    deadline = time.monotonic() + timeout
    timed_out = False
    while True:
        left = deadline - time.monotonic()
        if left <= 0:
            timed_out = True
            break
        ready, _, _ = select.select([r], [], [], min(left, 5.0))
        if not ready:
            continue
        c = os.read(r, 1 << 20)
        if not c:
            break
        chunks.append(c)
    os.close(r)
    if timed_out:
        try:
            os.killpg(pid, signal.SIGKILL)
        except (ProcessLookupError, PermissionError):
            try:
                os.kill(pid, signal.SIGKILL)
            except ProcessLookupError:
                pass
    _, status = os.waitpid(pid, 0)
    if timed_out:
        return {"harness_error": f"run timed out after {timeout}s", "seed": seed}
    data = b"".join(chunks)
    if not data:
        return {"harness_error": f"run process died (status {status}) without a result", "seed": seed}
    try:
        return pickle.loads(data)
    except Exception as exc:  # noqa: BLE001
        return {"harness_error": f"undecodable result: {exc}", "seed": seed}


def _compact(res, keep_ops):
    if "harness_error" in res:
        return res
    out = {k: res[k] for k in ("seed", "profile", "mode", "n_ops", "executed", "digest", "opsdigest", "violation",
                               "other_violations", "stats", "fired", "configured", "fault_sites", "triples",
                               "trigrams", "shared_objects", "signature")}
    out["fs"] = (res.get("cfg") or {}).get("fs")
    out["fault_free"] = (res.get("cfg") or {}).get("fault_free")
    out["scenario"] = (res.get("cfg") or {}).get("scenario")
    out["sweep"] = [(res.get("cfg") or {}).get("sweep_kind"), (res.get("cfg") or {}).get("sweep_target")]
    if keep_ops or res["violation"]:
        out["cfg"] = res["cfg"]
        out["ops"] = res["ops"]
        out["log"] = res["log"]
    return out


def _batch(args):
    profile, mode, seeds, stop_props, sample_every = args
    os.environ.setdefault("OPENBLAS_NUM_THREADS", "1")
    from .api import load

    load()
    out = []
    for s in seeds:
        t0 = time.monotonic()
        res = forked_run(profile, s, stop_props=stop_props, mode=mode)
        res["wall"] = time.monotonic() - t0
        keep = sample_every and (s % sample_every == 0)
        c = _compact(res, keep)
        c["wall"] = res["wall"]
        out.append(c)
    return out


def campaign(profile, mode, seeds, stop_props, workers, sample_every=0, budget_s=None):
    """Run the seeds over a pool of forked workers; returns list of compact results (order of seeds)."""
    ctx = multiprocessing.get_context("fork")
    chunk = max(1, min(8, len(seeds) // (workers * 4) or 1))
    jobs = [seeds[i: i + chunk] for i in range(0, len(seeds), chunk)]
    results = []
    t0 = time.monotonic()
    with cf.ProcessPoolExecutor(max_workers=workers, mp_context=ctx) as ex:
        futs = [ex.submit(_batch, (profile, mode, j, stop_props, sample_every)) for j in jobs]
        for f, j in zip(futs, jobs):
            try:
                results.extend(f.result(timeout=(RUN_TIMEOUT + 60) * len(j)))
            except Exception as exc:  # noqa: BLE001
                results.extend({"harness_error": f"worker failed: {exc!r}", "seed": s} for s in j)
    return results, time.monotonic() - t0


# ------------------------------------------------------------------------------------------------
# minimisation


def _same_class(res, want, prop):
    v = res.get("violation")
    return bool(v) and prop in v["props"] and [v["oracle"], v["callee"]] == want


def _shrink_test(args):
    profile, seed, cand, cfg, stop_props, want, prop = args
    os.environ.setdefault("OPENBLAS_NUM_THREADS", "1")
    from .api import load

    load()
    res = forked_run(profile, seed, ops=cand, cfg=cfg, stop_props=stop_props)
    return _same_class(res, want, prop)


def shrink(profile, prop, seed, cfg, ops, want, stop_props, budget=400, workers=None):
    """ddmin over the operation list, then per-operation simplification; every attempt in a fresh fork.

    The candidates of one round are evaluated concurrently; the first successful candidate *in list
    order* is taken, so the result does not depend on timing.
    """
    workers = workers or min(16, os.cpu_count() or 4)
    ctx = multiprocessing.get_context("fork")
    attempts = 0
    with cf.ProcessPoolExecutor(max_workers=workers, mp_context=ctx) as ex:

        def first_success(cands):
            nonlocal attempts
            if not cands:
                return None
            attempts += len(cands)
            oks = list(ex.map(_shrink_test, [(profile, seed, c, cfg, stop_props, want, prop) for c in cands]))
            for i, ok in enumerate(oks):
                if ok:
                    return i
            return None

        cur = list(ops)
        n = 2
        while len(cur) >= 2 and attempts < budget:
            size = max(1, len(cur) // n)
            subsets = [cur[i: i + size] for i in range(0, len(cur), size)]
            cands = [[x for j, s in enumerate(subsets) if j != i for x in s] for i in range(len(subsets))]
            cands = [c for c in cands if c]
            i = first_success(cands)
            if i is not None:
                cur = cands[i]
                n = max(n - 1, 2)
            else:
                if n >= len(cur):
                    break
                n = min(len(cur), n * 2)
        # one-by-one removal until a fixpoint
        changed = True
        while changed and len(cur) > 1 and attempts < budget:
            changed = False
            cands = [cur[:i] + cur[i + 1:] for i in range(len(cur))]
            i = first_success(cands)
            if i is not None:
                cur = cands[i]
                changed = True
        # per-operation simplification
        for field in ("fault", "env", "invalid", "transform"):
            changed = True
            while changed and attempts < budget:
                changed = False
                idxs = [i for i in range(len(cur)) if cur[i].get(field)]
                cands = []
                for i in idxs:
                    c = [dict(o) for o in cur]
                    c[i][field] = None
                    cands.append(c)
                j = first_success(cands)
                if j is not None:
                    cur = cands[j]
                    changed = True
        # basis-set files: drop elements, then shells, then layout noise while the violation persists
        import copy

        for i in range(len(cur)):
            if "spec" not in cur[i]:
                continue
            changed = True
            while changed and attempts < budget:
                changed = False
                sp = cur[i]["spec"]
                cands = []

                def with_spec(new_spec):
                    c = [dict(o) for o in cur]
                    c[i]["spec"] = new_spec
                    return c

                if len(sp["elements"]) > 1:
                    for k in range(len(sp["elements"])):
                        ns = copy.deepcopy(sp)
                        del ns["elements"][k]
                        cands.append(with_spec(ns))
                for k, el in enumerate(sp["elements"]):
                    if len(el["shells"]) > 1:
                        for m in range(len(el["shells"])):
                            ns = copy.deepcopy(sp)
                            del ns["elements"][k]["shells"][m]
                            cands.append(with_spec(ns))
                lay = sp["layout"]
                if lay.get("comments") or lay.get("blanks") or lay.get("inner"):
                    ns = copy.deepcopy(sp)
                    ns["layout"].update({"comments": False, "blanks": False, "inner": 0.0})
                    cands.append(with_spec(ns))
                j = first_success(cands[:48])
                if j is not None:
                    cur = cands[j]
                    changed = True
    return cur, attempts


def write_replay(prop, profile, res, ops, want, attempts):
    os.makedirs(os.path.join(OUT, "replays"), exist_ok=True)
    path = os.path.join(OUT, "replays", f"{prop}-{res['seed']}.json")
    doc = {
        "property": prop,
        "profile": profile,
        "seed": res["seed"],
        "mode": res.get("mode", "random"),
        "cfg": res.get("cfg"),
        "expected": {"oracle": want[0], "callee": want[1]},
        "detail": res["violation"]["detail"],
        "original_length": len(res.get("ops") or []),
        "shrink_attempts": attempts,
        "ops": ops,
    }
    with open(path, "w") as fh:
        json.dump(doc, fh, indent=1)
    return path


def replay_file(path):
    """Re-execute a replay file in this process tree; returns (reproduced, result)."""
    from .api import load

    load()
    with open(path) as fh:
        doc = json.load(fh)
    res = forked_run(doc["profile"], doc["seed"], ops=doc["ops"], cfg=doc.get("cfg"), stop_props=[doc["property"]])
    want = [doc["expected"]["oracle"], doc["expected"]["callee"]]
    return _same_class(res, want, doc["property"]), res, doc


def replay_in_fresh_interpreter(path):
    env = dict(os.environ)
    env["PYTHONHASHSEED"] = "12345"
    p = subprocess.run([sys.executable, os.path.join(VERIF, "check"), "--replay", path], env=env,
                       capture_output=True, text=True, timeout=RUN_TIMEOUT * 2)
    return p.returncode == 1 and "VIOLATION" in p.stdout, p.stdout + p.stderr


# ------------------------------------------------------------------------------------------------
# determinism self-test


def digests_in_fresh_interpreter(profile, mode, seeds, hashseed, workers):
    env = dict(os.environ)
    env["PYTHONHASHSEED"] = str(hashseed)
    cmd = [sys.executable, os.path.join(VERIF, "check"), "--digest", profile, mode, str(workers)] + [str(s) for s in seeds]
    p = subprocess.run(cmd, env=env, capture_output=True, text=True, timeout=RUN_TIMEOUT * 4)
    if p.returncode != 0:
        raise RuntimeError("digest subprocess failed: " + p.stdout[-2000:] + p.stderr[-2000:])
    line = [l for l in p.stdout.splitlines() if l.startswith("DIGESTS ")][-1]
    return json.loads(line[len("DIGESTS "):])
