"""Canonical forms: snapshots of user-owned objects (oracle O1) and of call outcomes (oracle O2).

Nothing here draws random numbers or reads a clock.
"""
import hashlib

import numpy as np

SHELL_ATTRS = ("angmom", "coord", "coeffs", "exps", "coord_type", "icenter", "norm_cont")


def _h(b):
    return hashlib.blake2b(b, digest_size=12).hexdigest()


def arr_sig(a):
    """Signature of an array the user owns: identity-free, layout and content sensitive."""
    try:
        if a.dtype == object:
            content = repr(a.tolist()).encode()
        else:
            content = np.ascontiguousarray(a).tobytes()
    except Exception as exc:  # pragma: no cover - exotic dtypes
        content = repr(exc).encode()
    return ("nd", a.dtype.str, tuple(a.shape), tuple(a.strides), _h(content), bool(a.flags.writeable))


def snap(obj, depth=0, memo=None):
    """Recursive snapshot of anything the simulated user may own and pass to the library.

    Containers keep the identity (``id``) of their members so that replacement of a member by an
    equal copy is seen as well; arrays are compared by bytes, dtype, shape and strides.
    """
    if memo is None:
        memo = {}
    if depth > 8:
        return ("deep",)
    if obj is None or isinstance(obj, (bool, int, float, complex, str, bytes)):
        return ("v", type(obj).__name__, repr(obj))
    oid = id(obj)
    if oid in memo:
        return ("ref", memo[oid])
    memo[oid] = len(memo)
    if isinstance(obj, np.ndarray):
        return arr_sig(obj)
    if isinstance(obj, np.generic):
        return ("npv", obj.dtype.str, repr(obj.item()))
    if isinstance(obj, (list, tuple)):
        return (type(obj).__name__, tuple(id(x) for x in obj), tuple(snap(x, depth + 1, memo) for x in obj))
    if isinstance(obj, dict):
        return (
            "dict",
            tuple(repr(k) for k in obj.keys()),
            tuple(id(v) for v in obj.values()),
            tuple(snap(v, depth + 1, memo) for v in obj.values()),
        )
    if is_shell(obj):
        return shell_snap(obj, depth, memo)
    if hasattr(obj, "read") and hasattr(obj, "tell"):  # a stream the user owns: its position is part of its state
        try:
            return ("stream", type(obj).__name__, obj.tell(), bool(getattr(obj, "closed", False)))
        except (OSError, ValueError):
            return ("stream", type(obj).__name__, "closed")
    if hasattr(obj, "__dict__"):
        d = vars(obj)
        return (
            "obj",
            type(obj).__name__,
            tuple(sorted(d.keys())),
            tuple(snap(d[k], depth + 1, memo) for k in sorted(d.keys())),
        )
    return ("repr", type(obj).__name__, repr(obj))


def is_shell(obj):
    return any(c.__name__ == "GeneralizedContractionShell" for c in type(obj).__mro__)


def shell_snap(sh, depth=0, memo=None):
    """Documented attributes by value (and identity of the stored arrays)."""
    if memo is None:
        memo = {}
    out = ["shell", type(sh).__name__]
    for name in SHELL_ATTRS:
        try:
            v = getattr(sh, name)
        except Exception as exc:
            out.append((name, "missing", type(exc).__name__))
            continue
        if isinstance(v, np.ndarray):
            out.append((name, id(v), arr_sig(v)))
        else:
            out.append((name, snap(v, depth + 1, memo)))
    for name in ("angmom_components_cart", "angmom_components_sph"):
        try:
            v = getattr(sh, name)
            if isinstance(v, np.ndarray):
                out.append((name, v.dtype.str, tuple(v.shape), _h(np.ascontiguousarray(v).tobytes())))
            else:
                out.append((name, repr(v)))
        except Exception as exc:
            out.append((name, "raises", type(exc).__name__))
    return tuple(out)


def shell_private_attrs(sh):
    """Names of instance attributes other than the documented ones (probe only)."""
    known = {"_angmom", "_coord", "_coeffs", "_exps", "_coord_type", "_icenter", "norm_cont", "variant"}
    return tuple(sorted(k for k in vars(sh).keys() if k not in known))


# ----------------------------------------------------------------------------------------------
# outcomes


def canon_value(v, depth=0):
    """Canonical, picklable form of a value returned by the library."""
    if depth > 8:
        return ("deep",)
    if isinstance(v, np.ndarray):
        if v.dtype == object:
            return ("ndobj", tuple(v.shape), repr(v.tolist()))
        return ("nd", v.dtype.str, tuple(v.shape), np.ascontiguousarray(v).tobytes())
    if isinstance(v, np.generic):
        return ("nd", v.dtype.str, (), np.asarray(v).tobytes())
    if v is None or isinstance(v, (bool, int, str)):
        return ("v", type(v).__name__, repr(v))
    if isinstance(v, float):
        return ("nd", "<f8", (), np.asarray(v, dtype=float).tobytes())
    if isinstance(v, complex):
        return ("nd", "<c16", (), np.asarray(v, dtype=complex).tobytes())
    if isinstance(v, (list, tuple)):
        return (type(v).__name__, tuple(canon_value(x, depth + 1) for x in v))
    if isinstance(v, dict):
        return ("dict", tuple((repr(k), canon_value(x, depth + 1)) for k, x in v.items()))
    if is_shell(v):
        items = []
        for name in SHELL_ATTRS:
            try:
                items.append((name, canon_value(getattr(v, name), depth + 1)))
            except Exception as exc:
                items.append((name, ("missing", type(exc).__name__)))
        for name in ("angmom_components_cart", "angmom_components_sph"):
            try:
                items.append((name, canon_value(getattr(v, name), depth + 1)))
            except Exception as exc:
                items.append((name, ("raises", type(exc).__name__)))
        return ("shell", type(v).__name__, tuple(items))
    return ("repr", type(v).__name__)


def outcome_ok(v):
    return ("ok", canon_value(v))


def outcome_raise(exc):
    return ("raise", type(exc).__name__, str(exc)[:200])


def outcome_class(o):
    if o[0] == "ok":
        return "ok"
    return "raise:" + o[1]


def outcome_digest(o):
    h = hashlib.blake2b(digest_size=12)

    def feed(x):
        if isinstance(x, tuple):
            h.update(b"(")
            for y in x:
                feed(y)
            h.update(b")")
        elif isinstance(x, bytes):
            h.update(b"b")
            h.update(x)
        else:
            h.update(repr(x).encode())
        h.update(b",")

    if o[0] == "raise":
        feed(("raise", o[1]))  # the message is not part of the digest
    else:
        feed(o)
    return h.hexdigest()


class Mismatch(Exception):
    pass


def _cmp_val(a, b, stats, path):
    if a[0] != b[0]:
        raise Mismatch(f"{path}: kind {a[0]} != {b[0]}")
    k = a[0]
    if k == "nd":
        if a[1] != b[1] or a[2] != b[2]:
            raise Mismatch(f"{path}: dtype/shape {a[1]}{a[2]} != {b[1]}{b[2]}")
        if a[3] == b[3]:
            stats["bitwise"] = stats.get("bitwise", 0) + 1
            return
        x = np.frombuffer(a[3], dtype=a[1]).reshape(a[2])
        y = np.frombuffer(b[3], dtype=b[1]).reshape(b[2])
        if x.dtype.kind in "fc":
            nanx, nany = np.isnan(x), np.isnan(y)
            infx, infy = np.isinf(x), np.isinf(y)
            if (nanx != nany).any() or (infx != infy).any() or (x[infx] != y[infy]).any():
                raise Mismatch(f"{path}: NaN/inf pattern differs")
            fin = ~(nanx | infx)
            if fin.any():
                scale = max(np.abs(x[fin]).max(), np.abs(y[fin]).max())
                diff = np.abs(x[fin] - y[fin]).max()
                # relative to the largest entry, with an absolute floor: an array that is rounding noise
                # throughout (an overlap that vanishes by symmetry, computed as 1e-17) legitimately differs
                # in every digit between two correct evaluations that sum in another order
                if diff > max(1e-12 * scale, 1e-13):
                    raise Mismatch(f"{path}: max|diff|={diff:.3e} scale={scale:.3e}")
            stats["close_not_bitwise"] = stats.get("close_not_bitwise", 0) + 1
            return
        raise Mismatch(f"{path}: integer/bool array content differs")
    if k in ("list", "tuple"):
        if len(a[1]) != len(b[1]):
            raise Mismatch(f"{path}: length {len(a[1])} != {len(b[1])}")
        for i, (x, y) in enumerate(zip(a[1], b[1])):
            _cmp_val(x, y, stats, f"{path}[{i}]")
        return
    if k == "dict":
        if tuple(x[0] for x in a[1]) != tuple(x[0] for x in b[1]):
            raise Mismatch(f"{path}: dict keys/order differ")
        for (ka, x), (_, y) in zip(a[1], b[1]):
            _cmp_val(x, y, stats, f"{path}[{ka}]")
        return
    if k == "shell":
        if a[1] != b[1]:
            raise Mismatch(f"{path}: shell class {a[1]} != {b[1]}")
        for (na, x), (_, y) in zip(a[2], b[2]):
            _cmp_val(x, y, stats, f"{path}.{na}")
        return
    if a != b:
        raise Mismatch(f"{path}: {a!r} != {b!r}")


def compare_outcomes(hist, ref, stats):
    """Raise Mismatch unless the two outcomes are the same in the sense of DESIGN §3.5 O2."""
    if hist[0] != ref[0]:
        raise Mismatch(f"outcome kind: history={describe(hist)} reference={describe(ref)}")
    if hist[0] == "raise":
        if hist[1] != ref[1]:
            raise Mismatch(f"exception type: history={hist[1]} reference={ref[1]}")
        if hist[2] != ref[2]:
            stats["exc_message_differs"] = stats.get("exc_message_differs", 0) + 1
        return
    _cmp_val(hist[1], ref[1], stats, "result")


def describe(o):
    if o[0] == "raise":
        return f"raise {o[1]}({o[2][:80]!r})"
    v = o[1]
    if v[0] == "nd":
        return f"ok nd {v[1]}{v[2]}"
    return f"ok {v[0]}"
