"""Oracle O4 (unit normalisation) — independent closed form plus the library's own overlap."""
import math

import numpy as np


def _df(n):
    """(2n-1)!! for n >= 0."""
    out = 1
    for k in range(1, 2 * n, 2):
        out *= k
    return out


def _axis_integral(n, p):
    """Integral of x^(2n) exp(-p x^2) over the real line."""
    return _df(n) / (2.0 * p) ** n * math.sqrt(math.pi / p)


def closed_form_selfoverlap(angmom, comps, exps, coeffs_col):
    """Self-overlap of one contraction, plain Python floats; returns (value, conditioning)."""
    l = angmom
    ax, ay, az = comps
    total = 0.0
    abs_total = 0.0
    K = len(exps)
    nrm = []
    for a in exps:
        nrm.append((2.0 * a / math.pi) ** 0.75 * (4.0 * a) ** (l / 2.0) / math.sqrt(_df(ax) * _df(ay) * _df(az)))
    for i in range(K):
        for j in range(K):
            p = exps[i] + exps[j]
            t = (coeffs_col[i] * coeffs_col[j] * nrm[i] * nrm[j]
                 * _axis_integral(ax, p) * _axis_integral(ay, p) * _axis_integral(az, p))
            total += t
            abs_total += abs(t)
    cond = abs_total / abs(total) if total != 0 else float("inf")
    return total, cond


def check_normalised(api, sh, stats, tol=1e-8):
    """Returns None or a description of the failure.  ``UnnormShell`` style classes are skipped."""
    if type(sh).__name__ == "UnnormShell" or type(sh).__name__ == "IODataShell":
        stats["o4_skipped_unnormalised_class"] = stats.get("o4_skipped_unnormalised_class", 0) + 1
        return None
    exps = [float(x) for x in sh.exps]
    if not all(math.isfinite(x) and x > 0 for x in exps):
        stats["o4_skipped_bad_exponents"] = stats.get("o4_skipped_bad_exponents", 0) + 1
        return None
    comps = [tuple(int(c) for c in row) for row in sh.angmom_components_cart]
    nc = np.asarray(sh.norm_cont)
    M = sh.coeffs.shape[1]
    if nc.shape != (M, len(comps)):
        return f"norm_cont has shape {nc.shape}, expected {(M, len(comps))}"
    illcond = False
    for m in range(M):
        col = [float(x) for x in sh.coeffs[:, m]]
        for a, comp in enumerate(comps):
            try:
                s, cond = closed_form_selfoverlap(sh.angmom, comp, exps, col)
            except (OverflowError, ZeroDivisionError, ValueError):
                illcond = True
                continue
            if not (cond < 1e4) or not math.isfinite(s) or s <= 0:
                illcond = True
                continue
            val = float(nc[m, a]) ** 2 * s
            if not abs(val - 1.0) <= tol:
                return (f"closed form: norm_cont[{m},{a}]^2 * <phi|phi> = {val!r} for component {comp} "
                        f"(angmom {sh.angmom}, exps {exps}, coeffs {col})")
    if illcond:
        stats["o4_skipped_ill_conditioned"] = stats.get("o4_skipped_ill_conditioned", 0) + 1
        return None
    stats["o4_closed_form_checked"] = stats.get("o4_closed_form_checked", 0) + 1
    # the library's own overlap of the single shell, in the shell's coordinate type
    try:
        ov = api.fn["overlap_integral"]([sh])
    except Exception as exc:  # noqa: BLE001
        return f"overlap_integral([shell]) raised {type(exc).__name__}: {exc}"
    dg = np.diag(ov)
    if not np.all(np.abs(dg - 1.0) <= tol):
        return f"diagonal of overlap_integral([shell]) ({sh.coord_type}) is {dg.tolist()}"
    stats["o4_overlap_diag_checked"] = stats.get("o4_overlap_diag_checked", 0) + 1
    # a freshly constructed shell with the same parameters has the same normalisation
    try:
        fresh = type(sh)(sh.angmom, sh.coord, sh.coeffs, sh.exps, sh.coord_type)
        if hasattr(sh, "variant"):
            fresh.variant = sh.variant
    except Exception as exc:  # noqa: BLE001
        return f"constructing an identical fresh shell raised {type(exc).__name__}: {exc}"
    fn = np.asarray(fresh.norm_cont)
    if fn.shape != nc.shape or not np.allclose(fn, nc, rtol=1e-12, atol=0):
        return "norm_cont differs from that of a freshly constructed identical shell"
    stats["o4_fresh_shell_checked"] = stats.get("o4_fresh_shell_checked", 0) + 1
    return None
