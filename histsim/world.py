"""The simulated user's world: pools of owned objects and the resolution of operations against them.

``resolve`` is run identically by the history process and by the reference (zygote) process; it may
add objects to the pools (deterministically, from the operation's own draws) but never calls a
query.  It returns a ``Bound`` describing the library call of the operation.
"""
import random

import numpy as np

from . import bswriter
from .api import HarnessError, load
from .canon import snap


class Entry:
    __slots__ = ("obj", "role", "meta")

    def __init__(self, obj, role=None, meta=None):
        self.obj = obj
        self.role = role
        self.meta = meta or {}


class Bound:
    """One library call with everything needed to execute and judge it."""

    def __init__(self, kind, label, call=None, args=(), post=None, expect=None, importy=False, skip=None):
        self.kind = kind  # "W" (state building), "noise", "query"
        self.label = label  # callee name, part of the violation class
        self.call = call
        self.args = list(args)  # objects whose snapshots must survive the call
        self.post = post  # W only: fold the value into the pools
        self.expect = expect  # O5: callable(value) -> None | str (description of the mismatch)
        self.importy = importy
        self.skip = skip  # reason if there is nothing to do
        self.valid = True  # False when arguments were corrupted on purpose
        self.touched = []  # shells whose normalisation must be re-checked (O4)


def make_shell_classes(api):
    Base = api.Shell

    class ConvShell(Base):
        """Wrapper-style shell reporting another component convention (reversed order, signs)."""

        @property
        def angmom_components_cart(self):
            return np.array(super().angmom_components_cart[::-1])

        @property
        def angmom_components_sph(self):
            base = list(super().angmom_components_sph)[::-1]
            return tuple(("-" + b) if (i % 2 and b != "c0") else b for i, b in enumerate(base))

    class PyscfLikeShell(Base):
        @property
        def angmom_components_sph(self):
            if self.angmom == 1:
                return ("c1", "s1", "c0")
            return super().angmom_components_sph

    class UnnormShell(Base):
        """As IODataShell: the user supplies normalised contractions, norm_cont is one."""

        def assign_norm_cont(self):
            ncart = ((self.angmom + 1) * (self.angmom + 2)) // 2
            self.norm_cont = np.ones((self.coeffs.shape[1], ncart))

    class CartPermShell(Base):
        """Only the Cartesian component order differs (Molden-like: cyclic rotation of the default)."""

        @property
        def angmom_components_cart(self):
            base = super().angmom_components_cart
            return np.array(np.roll(base, 1, axis=0))

    class SphPermShell(Base):
        """Only the spherical component order differs (m = 0, +1, -1, ... as in iodata/pyscf files)."""

        @property
        def angmom_components_sph(self):
            out = ["c0"]
            for m in range(1, self.angmom + 1):
                out += ["c%d" % m, "s%d" % m]
            return tuple(out)

    class InstConvShell(Base):
        """A user subclass whose pure-function convention is a property of the *instance* (``variant``), as a
        shell read from a file that records its own convention would be."""

        variant = 0

        @property
        def angmom_components_sph(self):
            base = list(super().angmom_components_sph)
            v = self.variant
            if v == 1:
                base = base[::-1]
            elif v == 2:
                base = [("-" + b) if (b != "c0" and not b.startswith("-")) else b for b in base]
            return tuple(base)

    return {"base": Base, "conv": ConvShell, "pyscf": PyscfLikeShell, "unnorm": UnnormShell,
            "cartperm": CartPermShell, "sphperm": SphPermShell, "instconv": InstConvShell}


class Mole:
    """Stub of pyscf.gto.mole.Mole: exactly the three attributes from_pyscf reads."""

    def __init__(self, atoms, basis, cart, coord_form="list", row_form="list", kappa=False, unit="angstrom"):
        self.unit = unit  # as on a real Mole: the unit of the *input*; _atom is always in Bohr
        conv = {"list": list, "tuple": tuple, "array": lambda x: np.array(x, dtype=float)}[coord_form]
        rconv = {"list": list, "tuple": tuple}[row_form]
        self._atom = [(sym, conv(xyz)) for sym, xyz in atoms]
        head = (lambda l: [l, 0]) if kappa else (lambda l: [l])  # pyscf's optional kappa entry (not supported)
        self._basis = {sym: [head(sh[0]) + [rconv(row) for row in sh[1:]] for sh in shells] for sym, shells in basis.items()}
        self.cart = bool(cart)


class IOData:
    """Stub of iodata.iodata.IOData: what from_iodata reads (class name, obasis, atcoords)."""

    def __init__(self, atcoords, obasis):
        self.atcoords = atcoords
        self.obasis = obasis


class _IOBasis:
    def __init__(self, shells, conventions):
        self.shells = shells
        self.conventions = conventions
        self.primitive_normalization = "L2"


class _IOShell:
    def __init__(self, icenter, l, kind, exps, coeffs):
        self.icenter = icenter
        self.angmoms = [l]
        self.kinds = [kind]
        self.exponents = np.array(exps, dtype=float)
        self.coeffs = np.array(coeffs, dtype=float).reshape(-1, 1)

    @property
    def ncon(self):
        return len(self.angmoms)


def make_iodata(op):
    conv = {}
    for k, v in op["conventions"].items():
        l, t = k.split(",")
        conv[(int(l), t)] = list(v)
    shells = [_IOShell(s["icenter"], s["l"], s["kind"], s["exps"], s["coeffs"]) for s in op["shells"]]
    return IOData(np.array(op["atcoords"], dtype=float).reshape(-1, 3), _IOBasis(shells, conv))


class World:
    def __init__(self, fs, history_side):
        self.api = load()
        self.classes = make_shell_classes(self.api)
        self.fs = fs
        if getattr(fs, "seam", True):
            self.api.parsers.open = fs.open  # the I/O seam
        else:
            self.api.parsers.__dict__.pop("open", None)
        self.history_side = history_side
        self.arrays = []
        self.shells = []
        self.containers = []
        self.lists = []  # atoms / coord_types arguments
        self.paths = []
        self.file_specs = {}
        self.bdicts = []
        self.moles = []
        self.instances = []  # retained integral / evaluation class instances
        self.results = []  # history side only
        self.scribbled = []  # results the user wrote to since the last check
        self.probes = {}

    # ------------------------------------------------------------------ helpers
    def probe(self, name, n=1):
        self.probes[name] = self.probes.get(name, 0) + n

    def all_objects(self):
        objs = [e.obj for e in self.arrays] + [e.obj for e in self.shells] + [e.obj for e in self.containers]
        objs += [e.obj for e in self.lists] + [e.obj for e in self.bdicts] + [e.obj for e in self.moles]
        return objs  # retained class instances are the library's own objects: not snapshotted

    def digest(self):
        return (snap(tuple(self.all_objects())), self.fs.snapshot())

    def pick(self, pool, d, pred, reuse, mk):
        cands = [e for e in pool if pred(e)]
        if reuse and cands:
            if len(cands) > 1 or len(pool) > 1:
                self.probe("reused_pool_object")
            return cands[d % len(cands)]
        e = mk()
        pool.append(e)
        return e

    def array(self, role, shape, d, reuse, mk):
        def pred(e):
            return e.role == role and (shape is None or tuple(e.obj.shape) == tuple(shape))

        return self.pick(self.arrays, d, pred, reuse, lambda: Entry(mk(), role)).obj

    @staticmethod
    def nbf_shell(sh):
        l = sh.angmom
        n = (2 * l + 1) if sh.coord_type == "spherical" else ((l + 1) * (l + 2)) // 2
        return n * sh.coeffs.shape[1]

    def nbf(self, basis):
        return sum(self.nbf_shell(s) for s in basis)

    def default_shell(self):
        if not self.shells:
            sh = self.classes["base"](0, np.zeros(3), np.array([1.0]), np.array([0.8]), "spherical")
            self.shells.append(Entry(sh, meta={"cls": "base"}))
        return self.shells[0].obj

    def basis(self, d, reuse=True, max_nbf=40, max_l=9, mk_members=None, max_work=None):
        def work(b):  # Cartesian functions x primitives: what the two-electron kernel's cost grows with
            return sum(((s.angmom + 1) * (s.angmom + 2)) // 2 * s.coeffs.shape[1] * s.exps.shape[0] for s in b)

        def cost_ok(e):
            b = e.obj
            return (len(b) > 0 and self.nbf_cart(b) <= max_nbf and max(s.angmom for s in b) <= max_l
                    and (max_work is None or work(b) <= max_work))

        def mk():
            self.default_shell()
            ok = [e.obj for e in self.shells if e.obj.angmom <= max_l and self.nbf_cart([e.obj]) <= max_nbf
                  and (max_work is None or work([e.obj]) <= max_work)]
            if not ok:
                sh = self.classes["base"](0, np.zeros(3), np.array([1.0]), np.array([0.8]), "spherical")
                self.shells.append(Entry(sh, meta={"cls": "base"}))
                ok = [sh]
            members = [ok[d % len(ok)]]
            return Entry(members)

        return self.pick(self.containers, d, cost_ok, reuse, mk).obj

    @staticmethod
    def nbf_cart(basis):
        return sum(((s.angmom + 1) * (s.angmom + 2)) // 2 * s.coeffs.shape[1] for s in basis)

    def points(self, d, reuse, rs, max_n=8, min_n=1):
        def mk():
            k = rs.randint(min_n, max_n) if min_n > 1 else rs.randint(1, min(4, max_n))
            return Entry(np.array([[rs.uniform(-2, 2) for _ in range(3)] for _ in range(k)]), "coords")

        def pred(e):
            return e.role == "coords" and e.obj.ndim == 2 and min_n <= e.obj.shape[0] <= max_n and e.obj.shape[0] > 0

        return self.pick(self.arrays, d, pred, reuse, mk).obj


# (max number of Cartesian basis functions, max angular momentum, max number of points) per query: the
# Python-level cost of the derivative-heavy evaluations grows quickly and every faulted query is run
# several times under a line tracer.
# occasionally these vectorised functions get a large grid / many functions / high angular momentum: code
# paths that switch on size (chunking, pre-allocation) are legal places for the property to break
BIG_OK = {
    "evaluate_basis": (120, 5, 400),
    "evaluate_deriv_basis": (80, 5, 300),
    "evaluate_density": (80, 5, 400),
    "evaluate_density_using_evaluated_orbs": (80, 5, 400),
    "overlap_integral": (120, 6, 8),
    "kinetic_energy_integral": (80, 5, 8),
    "overlap_integral_asymmetric": (80, 5, 8),
    "moment_integral": (50, 4, 8),
    "evaluate_density_gradient": (40, 4, 200),
    "electrostatic_potential": (30, 3, 60),
    "point_charge_integral": (30, 3, 40),
}

# a few thousand points on a tiny basis are still cheap for these (vectorised over points); grids above 4096 /
# 8192 points are where slab-wise processing would start
HUGE_OK = {
    "evaluate_basis": (10, 1, 12000),
    "evaluate_density": (10, 1, 12000),
    "evaluate_deriv_basis": (10, 1, 9000),
    "electrostatic_potential": (8, 1, 9000),
    "point_charge_integral": (8, 1, 6000),
    "evaluate_density_gradient": (8, 1, 6000),
}

COST_CAPS = {
    "evaluate_ehrenfest_hessian": (6, 1, 1),
    "evaluate_ehrenfest_force": (10, 2, 2),
    "evaluate_stress_tensor": (14, 2, 2),
    "evaluate_density_hessian": (14, 2, 2),
    "evaluate_general_kinetic_energy_density": (14, 2, 3),
    "evaluate_density_laplacian": (20, 2, 4),
    "evaluate_density_gradient": (20, 3, 4),
    "evaluate_posdef_kinetic_energy_density": (20, 3, 4),
    "evaluate_deriv_reduced_density_matrix": (20, 3, 4),
    "evaluate_deriv_density": (20, 3, 4),
    "point_charge_integral": (20, 3, 4),
    "nuclear_electron_attraction_integral": (20, 3, 4),
    "electrostatic_potential": (20, 3, 4),
    "angular_momentum_integral": (24, 3, 8),
    "moment_integral": (24, 3, 8),
}


# ------------------------------------------------------------------------------------------------
# resolution of operations


def resolve(w, op):
    kind = op["op"]
    fn = RESOLVERS.get(kind)
    if fn is None:
        raise HarnessError(f"unknown operation {kind}")
    return fn(w, op)


def r_new_coords(w, op):
    rs = random.Random(op["seed"])
    n = op["n"]
    sc = op["scale"]
    vals = None
    if op["mode"] == "centers" and w.shells:
        vals = [list(map(float, w.shells[rs.randrange(len(w.shells))].obj.coord)) for _ in range(n)]
    elif op["mode"] == "copy":
        c = [e for e in w.arrays if e.role == "coords"]
        if c:
            src = c[op["d"] % len(c)].obj
            vals = [list(map(float, src[rs.randrange(src.shape[0])])) for _ in range(n)] if src.shape[0] else None
    if vals is None:
        vals = [[rs.uniform(-2, 2) * sc for _ in range(3)] for _ in range(n)]
    lay = op["layout"]
    if lay == "f":
        arr = np.asfortranarray(np.array(vals))
    elif lay == "strided":
        big = np.zeros((2 * n, 3))
        big[::2] = vals
        arr = big[::2]
    else:
        arr = np.array(vals)

    def post(_):
        w.arrays.append(Entry(arr, "coords"))

    return Bound("W", "new_coords", call=lambda: None, post=post)


def r_new_shell(w, op):
    cls = w.classes[op["cls"]]
    sh_mode = op["share"]["mode"]
    exps = coeffs = None
    if sh_mode != "none" and w.shells:
        src = w.shells[op["share"]["d"] % len(w.shells)].obj
        exps = src.exps
        if sh_mode == "both":
            coeffs = src.coeffs
            w.probe("shell_shares_exps_and_coeffs")
        else:
            w.probe("shell_shares_exps")
    lay = op.get("array_layout", "c")
    if exps is None:
        exps = np.array(op["exps"], dtype=float)
        if lay == "strided":  # every other element of a longer array, as a slice of a table would be
            big = np.zeros(2 * exps.size)
            big[::2] = exps
            exps = big[::2]
    if coeffs is None:
        K = exps.shape[0]
        rows = [op["coeffs"][i % len(op["coeffs"])] for i in range(K)]
        # distinct rows when cycling so that the contraction does not degenerate
        rows = [[c * (1.0 + 0.37 * (i // len(op["coeffs"]))) for c in r] for i, r in enumerate(rows)]
        coeffs = np.array(rows, dtype=float)
        if lay == "column":  # columns of a wider table (what the NWChem parser hands out for SP shells)
            wide = np.zeros((coeffs.shape[0], coeffs.shape[1] + 1))
            wide[:, :-1] = coeffs
            coeffs = wide[:, :-1]
        elif lay == "strided":
            coeffs = np.asfortranarray(coeffs)
        if op["coeffs1d"] and coeffs.shape[1] == 1:
            coeffs = coeffs[:, 0] if lay == "column" else coeffs[:, 0].copy()
    cm = op["coord"]
    coord = None
    if cm["mode"] == "row":
        c = [e for e in w.arrays if e.role == "coords" and e.obj.shape[0] > 0]
        if c:
            a = c[cm["d"] % len(c)].obj
            coord = a[cm["r"] % a.shape[0]]
            w.probe("shell_coord_is_row_view")
    if coord is None:
        coord = np.array(cm["xyz"], dtype=float)
    angmom, ctype, ic = op["angmom"], op["ctype"], op["icenter"]
    keep = op.get("keep", True)
    cargs = [["angmom", angmom, "scalar"], ["coord", coord, "vec3"], ["coeffs", coeffs, "coeffs"],
             ["exps", exps, "exps"], ["coord_type", ctype, "str"], ["icenter", ic, "scalar"]]
    valid = True
    inv = op.get("invalid")
    if inv and not keep:
        t = cargs[inv["arg"] % len(cargs)]
        t[1] = corrupt(t[1], t[2], inv["kind"])
        valid = False
    a = [x[1] for x in cargs]

    def call():
        return cls(a[0], a[1], a[2], a[3], a[4], icenter=a[5])

    def post(sh):
        if op["cls"] == "instconv":
            sh.variant = op.get("variant", 0)
        w.shells.append(Entry(sh, meta={"cls": op["cls"]}))

    b = Bound("W" if keep else "query", "GeneralizedContractionShell", call=call, post=post if keep else None,
              args=[x for x in a if isinstance(x, np.ndarray)])
    b.valid = valid
    return b


def r_copy_shell(w, op):
    """The user duplicates a shell with copy.copy / copy.deepcopy (a shallow copy shares every array,
    including the cached ``norm_cont``)."""
    import copy

    if not w.shells:
        return Bound("W", "copy_shell", skip="no shell")
    src = w.shells[op["sd"] % len(w.shells)]
    dup = copy.deepcopy(src.obj) if op.get("deep") else copy.copy(src.obj)
    w.probe("shell_copied_deep" if op.get("deep") else "shell_copied_shallow")

    def post(_):
        w.shells.append(Entry(dup, meta=dict(src.meta)))

    return Bound("W", "copy_shell", call=lambda: None, post=post)


def r_new_container(w, op):
    w.default_shell()
    members = [w.shells[d % len(w.shells)].obj for d in op["members"]]
    obj = members if op["type"] == "list" else tuple(members)
    if len(set(map(id, members))) < len(members):
        w.probe("container_with_repeated_shell")

    def post(_):
        w.containers.append(Entry(obj))

    return Bound("W", "new_container", call=lambda: None, post=post)


def r_write_file(w, op):
    spec = op["spec"]
    ext = "nw" if spec["fmt"] == "nwchem" else "gbs"
    keep_mtime = False
    if op["new"] or not w.paths:
        path = "/sim/basis%d.%s" % (len(w.paths), ext)
        w.paths.append(path)
    else:
        path = w.paths[op["pathd"] % len(w.paths)]
        w.probe("file_overwritten")
        if op.get("tweak") is not None and path in w.file_specs:
            tw = bswriter.tweak_same_length(w.file_specs[path], op["tweak"])
            if tw is not None and len(bswriter.render(tw)) == len(bswriter.render(w.file_specs[path])):
                spec = tw
                keep_mtime = True
                w.probe("same_length_revision_with_old_mtime")
    text = bswriter.render(spec)

    def post(_):
        w.fs.write(path, text, keep_mtime=keep_mtime)
        w.file_specs[path] = spec

    return Bound("W", "write_file", call=lambda: None, post=post)


def _corrupt_path(w, inv):
    import io

    k = inv["kind"] % 4
    if k == 3:  # an open stream instead of a path (rejected by the pinned parsers)
        text = next(iter(w.fs.files.values()), "H    S\n  1.0  1.0\n")
        return io.StringIO(text)
    return [w.fs.real("/sim/does-not-exist"), None, 3.5][k]


def r_parse(w, op):
    if w.paths:
        path = w.paths[op["pathd"] % len(w.paths)]
        spec = w.file_specs[path]
    else:
        path, spec = "/sim/missing", None
    fmt = op["fmt"]
    real_fmt = spec["fmt"] if spec else "nwchem"
    if fmt == "auto":
        fmt = real_fmt
    fn = w.api.fn["parse_nwchem" if fmt == "nwchem" else "parse_gbs"]
    valid = spec is not None and fmt == real_fmt
    arg = w.fs.real(path)
    inv = op.get("invalid")
    if inv and not op["keep"]:
        arg = _corrupt_path(w, inv)
        valid = False
    model = bswriter.model_of(spec) if valid else None

    def expect(value):
        if model is None:
            return None
        if not isinstance(value, dict):
            return f"parser returned {type(value).__name__}, not dict"
        got = bswriter.flatten_parsed(value)
        if list(got.keys()) != list(model.keys()):
            return f"elements {list(got.keys())} != written {list(model.keys())}"
        for sym in model:
            if len(got[sym]) != len(model[sym]):
                return f"{sym}: {len(got[sym])} coefficient columns parsed, {len(model[sym])} written"
            for i, (g, m) in enumerate(zip(got[sym], model[sym])):
                if g[0] != m[0]:
                    return f"{sym}[{i}]: angular momentum {g[0]} != {m[0]}"
                if g[1] != m[1]:
                    return f"{sym}[{i}]: exponents {g[1]} != {m[1]}"
                if g[2] != m[2]:
                    return f"{sym}[{i}]: coefficients {g[2]} != {m[2]}"
        return None

    def post(value):
        if isinstance(value, dict):
            w.bdicts.append(Entry(value, meta={"path": path}))

    b = Bound("W" if op["keep"] else "query", fn.__name__, call=lambda: fn(arg), args=[arg], post=post,
              expect=expect, importy=True)
    b.valid = valid
    if w.paths and path in w.file_specs and w.probes.get("file_overwritten"):
        w.probe("parse_after_overwrite")
    return b


def _default_bdict(w):
    if not w.bdicts:
        d = {
            "H": [(0, np.array([3.4, 0.62, 0.17]), np.array([[0.15], [0.53], [0.44]]))],
            "C": [
                (0, np.array([71.6, 13.0, 3.5]), np.array([[0.15, -0.1], [0.53, 0.2], [0.44, 0.7]])),
                (1, np.array([2.9, 0.68]), np.array([0.16, 0.61])),
            ],
        }
        w.bdicts.append(Entry(d, meta={"path": None}))


def _norm_ct(ct):
    return {"c": "cartesian", "cartesian": "cartesian", "p": "spherical", "spherical": "spherical"}.get(ct)


def r_make_contr(w, op):
    _default_bdict(w)
    bde = w.bdicts[op["bd"] % len(w.bdicts)]
    bd = bde.obj
    syms = list(bd.keys())
    fn = w.api.fn["make_contractions"]
    atoms_l = [syms[d % len(syms)] for d in op["atoms"]] if syms else []
    typ = list if op["atoms_type"] == "list" else tuple
    ctspec = op["ct"]

    def atoms_pred(e):
        return e.role == "atoms" and e.meta.get("bd") is bd and type(e.obj) is typ and len(e.obj) == len(atoms_l)

    atoms = w.pick(w.lists, op["coords"]["d"], atoms_pred, ctspec["reuse"],
                   lambda: Entry(typ(atoms_l), "atoms", {"bd": bd})).obj
    n = len(atoms)
    if len(set(atoms)) < n:
        w.probe("molecule_with_repeated_element")
    cs = op["coords"]
    rs = random.Random(cs["seed"])
    def mk_coords():
        a = np.array([[rs.uniform(-2, 2) * cs["scale"] for _ in range(3)] for _ in range(n)]).reshape(n, 3)
        lay = cs.get("layout", "c")
        if lay == "f":
            return np.asfortranarray(a)
        if lay == "strided":
            big = np.zeros((2 * n, 3))
            big[::2] = a
            return big[::2]
        if lay == "int":
            return np.rint(a).astype(int)
        return a

    coords = w.array("coords", (n, 3), cs["d"], cs["reuse"], mk_coords)
    nsh = sum(len(bd[a]) for a in atoms)
    rc = random.Random(ctspec["seed"])
    names = ["c", "p"] if ctspec["short"] else ["cartesian", "spherical"]
    if ctspec["kind"] == "str":
        ct = rc.choice(names + ["cartesian", "spherical"])
    else:
        ctyp = list if ctspec["kind"] == "list" else tuple

        def ct_pred(e):
            return e.role == "ct" and type(e.obj) is ctyp and len(e.obj) == nsh

        ct = w.pick(w.lists, ctspec["d"], ct_pred, ctspec["reuse"],
                    lambda: Entry(ctyp(rc.choice(names) for _ in range(nsh)), "ct")).obj
        w.probe("coord_types_as_" + ctspec["kind"])
    args = [["basis_dict", bd, "bdict"], ["atoms", atoms, "atoms"], ["coords", coords, "coords"],
            ["coord_types", ct, "ct"]]
    valid = True
    inv = op.get("invalid")
    if inv and not op["keep"]:
        i = [0, 1, 2, 3, 3, 3][inv["arg"] % 6]  # coord_types is the argument with the most forms
        args[i][1] = corrupt(args[i][1], args[i][2], inv["kind"])
        valid = False
    a = [x[1] for x in args]
    ct_expected = [ct] * nsh if isinstance(ct, str) else list(ct)
    exp_rows = []
    if valid:
        j = 0
        for i, atom in enumerate(atoms):
            for (l, ex, co) in bd[atom]:
                exp_rows.append((int(l), np.array(ex, dtype=float), np.array(co, dtype=float),
                                 np.array(coords[i], dtype=float), _norm_ct(ct_expected[j]), i))
                j += 1

    def expect(value):
        if not valid:
            return None
        if not isinstance(value, (tuple, list)):
            return f"make_contractions returned {type(value).__name__}, not a sequence of shells"
        if len(value) != len(exp_rows):
            return f"{len(value)} shells returned, {len(exp_rows)} expected"
        for k, (sh, (l, ex, co, xyz, ctn, ic)) in enumerate(zip(value, exp_rows)):
            if sh.angmom != l:
                return f"shell {k}: angmom {sh.angmom} != {l}"
            if not np.array_equal(sh.exps, ex):
                return f"shell {k}: exponents differ"
            co2 = co[:, None] if co.ndim == 1 else co
            if not (sh.coeffs.shape == co2.shape and np.array_equal(sh.coeffs, co2)):
                return f"shell {k}: coefficients differ"
            if not np.array_equal(np.asarray(sh.coord), xyz):
                return f"shell {k}: centre {sh.coord} != atom coordinates {xyz}"
            if sh.coord_type != ctn:
                return f"shell {k}: coord_type {sh.coord_type} != requested {ctn}"
            if sh.icenter != ic:
                return f"shell {k}: icenter {sh.icenter} != atom index {ic}"
        return None

    def post(value):
        if isinstance(value, (tuple, list)):
            for sh in value:
                w.shells.append(Entry(sh, meta={"cls": "base"}))
            if 0 < len(value):
                w.containers.append(Entry(value))

    b = Bound("W" if op["keep"] else "query", "make_contractions", call=lambda: fn(*a), args=a, post=post,
              expect=expect, importy=True)
    b.valid = valid
    return b


def r_new_mole(w, op):
    m = Mole(op["atoms"], op["basis"], op["cart"], op.get("coord_form", "list"), op.get("row_form", "list"),
             unit=op.get("unit", "angstrom"))

    def post(_):
        w.moles.append(Entry(m))

    return Bound("W", "new_mole", call=lambda: None, post=post)


def r_from_pyscf(w, op):
    pm = [e for e in w.moles if e.role != "iodata"]
    if not pm:
        w.moles.append(Entry(Mole([["H", [0.0, 0.0, 0.0]]], {"H": [[0, [1.2, 0.7], [0.3, 0.4]]]}, False)))
        pm = [w.moles[-1]]
    m = pm[op["md"] % len(pm)].obj
    fn = w.api.fn["from_pyscf"]
    arg = m
    valid = True
    inv = op.get("invalid")
    if inv and not op["keep"]:
        k = inv["kind"] % 5
        if k == 3:  # a molecule in pyscf's [l, kappa, [exp, c...], ...] layout, which gbasis does not support
            arg = Mole([(s_, list(np.asarray(x_, dtype=float))) for s_, x_ in m._atom],
                       {s_: [[sh[0]] + [list(r) for r in sh[1:]] for sh in shs] for s_, shs in m._basis.items()},
                       m.cart, kappa=True)
        elif k == 4:  # a molecule without any atom
            arg = Mole([], {}, m.cart)
        else:
            arg = [None, "Mole", 3.5][k]
        valid = False
    exp_rows = []
    for sym, xyz in m._atom:
        for sh in m._basis[sym]:
            rows = np.array(sh[1:], dtype=float)
            exp_rows.append((sh[0], rows[:, 0], rows[:, 1:], np.array(xyz, dtype=float),
                             "cartesian" if m.cart else "spherical"))

    def expect(value):
        if not valid:
            return None
        if not isinstance(value, (tuple, list)):
            return f"from_pyscf returned {type(value).__name__}, not a sequence of shells"
        if len(value) != len(exp_rows):
            return f"{len(value)} shells returned, {len(exp_rows)} expected"
        for k, (sh, (l, ex, co, xyz, ctn)) in enumerate(zip(value, exp_rows)):
            if sh.angmom != l or not np.array_equal(sh.exps, ex) or not np.array_equal(sh.coeffs, co):
                return f"shell {k}: angmom/exponents/coefficients differ from the molecule's data"
            if not np.array_equal(sh.coord, xyz):
                return f"shell {k}: centre differs"
            if sh.coord_type != ctn:
                return f"shell {k}: coord_type {sh.coord_type} != {ctn}"
        return None

    def post(value):
        if isinstance(value, (tuple, list)):
            for sh in value:
                w.shells.append(Entry(sh, meta={"cls": "pyscf"}))
            if len(value):
                w.containers.append(Entry(value))

    b = Bound("W" if op["keep"] else "query", "from_pyscf", call=lambda: fn(arg), args=[arg], post=post,
              expect=expect, importy=True)
    b.valid = valid
    return b


def r_new_iodata(w, op):
    m = make_iodata(op)

    def post(_):
        w.moles.append(Entry(m, "iodata", {"snap0": snap(m)}))

    return Bound("W", "new_iodata", call=lambda: None, post=post)


def r_from_iodata(w, op):
    cands = [e for e in w.moles if e.role == "iodata"]
    if not cands:
        m = make_iodata({"atcoords": [[0.0, 0.0, 0.0]], "conventions": {"0,c": ["1"]},
                         "shells": [{"icenter": 0, "l": 0, "kind": "c", "exps": [1.1, 0.3], "coeffs": [0.4, 0.7]}]})
        w.moles.append(Entry(m, "iodata", {"snap0": snap(m)}))
        cands = [w.moles[-1]]
    ment = cands[op["md"] % len(cands)]
    m = ment.obj
    fn = w.api.fn["from_iodata"]
    arg = m
    valid = True
    inv = op.get("invalid")
    if inv and not op["keep"]:
        arg = [None, "IOData", 3.5][inv["kind"] % 3]
        valid = False

    def post(value):
        if isinstance(value, (list, tuple)):
            for sh in value:
                w.shells.append(Entry(sh, meta={"cls": "iodata"}))
            if len(value):
                w.containers.append(Entry(value))

    b = Bound("W" if op["keep"] else "query", "from_iodata", call=lambda: fn(arg), args=[arg], post=post, importy=False)
    b.valid = valid
    # shells made by from_iodata share storage with the molecule; once the user has updated such a shell in
    # place the molecule itself has changed and a world that only mirrors the *original* molecule is no reference
    b.pristine_ok = snap(m) == ment.meta.get("snap0")
    return b


INSTANCE_CLASSES = ["Overlap", "KineticEnergyIntegral", "MomentumIntegral", "Moment", "Eval", "EvalDeriv",
                    "PointChargeIntegral", "AngularMomentumIntegral", "OverlapAsymmetric"]


def r_new_instance(w, op):
    name = INSTANCE_CLASSES[op["cls"] % len(INSTANCE_CLASSES)]
    cls = w.api.cls[name]
    basis = w.basis(op["d"], True, max_nbf=30, max_l=3)
    ctor = [basis, basis] if name == "OverlapAsymmetric" else [basis]

    def post(inst):
        w.instances.append(Entry(inst, meta={"cls": name, "basis": basis}))

    return Bound("W", name + ".__init__", call=lambda: cls(*ctor), post=post, args=ctor)


def r_inst_call(w, op):
    if not w.instances:
        return Bound("query", "retained instance", skip="no retained instance")
    e = w.instances[op["id"] % len(w.instances)]
    name, basis, inst = e.meta["cls"], e.meta["basis"], e.obj
    rs = random.Random(op["seed"])
    d = op["d"]
    P = op["params"]
    p_reuse = op["reuse"]

    def reuse():
        return rs.random() < p_reuse

    def pts(idx):
        return w.points(d[idx], reuse(), rs, max_n=4)

    def charges_for(n, idx):
        return w.array("charges", (n,), d[idx], reuse(), lambda: _mk_charges(rs, n, P["charges"]))

    def int_array(role, vals, idx):
        want = np.array(vals, dtype=int)
        w.arrays.append(Entry(want, role))
        return want

    def float_vec(role, vals, idx):
        return w.array(role, (len(vals),), d[idx], reuse(), lambda: np.array(vals, dtype=float))

    return _bind_cls_array(w, op, basis, w.nbf(basis), rs, reuse, pts, charges_for, int_array, float_vec, None,
                           instance=inst, name=name)


def r_update(w, op):
    if not w.shells:
        return Bound("W", "update", skip="no shell")
    sh = w.shells[op["sd"] % len(w.shells)].obj
    what, how = op["what"], op["how"]

    def affected(arr):
        out = []
        for e in w.shells:
            s = e.obj
            if s is sh or any(np.shares_memory(arr, getattr(s, a)) for a in ("exps", "coeffs")):
                out.append(s)
        return out

    factor = op.get("factor")

    def scaled(arr):
        """Current values with one entry (or, for 2.0 / 0.5, everything) multiplied by ``factor``."""
        new = np.array(arr, dtype=float)
        if factor in (2.0, 0.5):
            return new * factor
        flat = new.reshape(-1)
        if flat.size:
            flat[op.get("factor_index", 0) % flat.size] *= factor
        return new

    def mutate():
        touched = [sh]
        if factor is not None and what in ("coeffs", "exps"):
            cur = sh.coeffs if what == "coeffs" else sh.exps
            new = scaled(cur)
            if how == "inplace":
                cur[...] = new
                touched = affected(cur)
                w.probe("inplace_update_of_shared_array", int(len(touched) > 1))
            elif what == "coeffs":
                sh.coeffs = new
            else:
                sh.exps = new
            w.probe("multiplicative_update")
            if factor not in (2.0, 0.5) and abs(factor - 1) < 1e-4:
                w.probe("tiny_update")
        elif what == "coeffs":
            K = sh.exps.shape[0]
            rows = np.array([[c * (1.0 + 0.29 * (i // 4)) for c in op["coeffs"][i % 4]] for i in range(K)], dtype=float)
            if how == "inplace":
                M = sh.coeffs.shape[1]
                new = np.array([[rows[i, j % rows.shape[1]] * (1.0 + 0.41 * (j // rows.shape[1])) for j in range(M)]
                                for i in range(K)])
                sh.coeffs[...] = new
                touched = affected(sh.coeffs)
                w.probe("inplace_update_of_shared_array", int(len(touched) > 1))
            else:
                sh.coeffs = rows
        elif what == "exps":
            K = sh.exps.shape[0]
            new = np.array([op["exps"][i % 4] * (1.0 + 0.13 * (i // 4)) for i in range(K)], dtype=float)
            if how == "inplace":
                sh.exps[...] = new
                touched = affected(sh.exps)
                w.probe("inplace_update_of_shared_array", int(len(touched) > 1))
            else:
                sh.exps = new
        elif what == "coord":
            if how == "inplace":
                sh.coord[...] = op["xyz"]
            else:
                sh.coord = np.array(op["xyz"], dtype=float)
        elif what == "angmom":
            sh.angmom = op["angmom"]
        elif what == "coord_type":
            sh.coord_type = op["ctype"]
        elif what == "icenter":
            sh.icenter = op["icenter"]
        elif what == "variant":
            if hasattr(sh, "variant"):
                sh.variant = (sh.variant + 1 + op.get("variant", 0) % 2) % 3  # always another convention
                w.probe("instance_convention_changed")
            else:
                sh.coord_type = op["ctype"]
        b.touched = touched
        w.probe("param_update_then_renormalise")
        return touched

    def renorm():
        for s in b.touched:
            s.assign_norm_cont()
        return [np.array(s.norm_cont) for s in b.touched]

    def call():
        mutate()
        return renorm()

    b = Bound("W", "update:" + what, call=call)
    b.mutate = mutate
    b.renorm = renorm
    return b


def r_scribble(w, op):
    if not w.history_side or not w.results:
        return Bound("noise", "scribble", skip="nothing to scribble on")
    res = w.results[op["rd"] % len(w.results)]
    rs = random.Random(op["seed"])

    def call():
        if isinstance(res, np.ndarray):
            # a result that shares memory with something the user owns is left alone: writing to it
            # would be the user changing their own input, which the reference world cannot mirror
            for o in w.all_objects():
                arrs = [o] if isinstance(o, np.ndarray) else (
                    [o.coord, o.coeffs, o.exps, o.norm_cont] if hasattr(o, "norm_cont") else [])
                if any(isinstance(a, np.ndarray) and np.shares_memory(res, a) for a in arrs):
                    w.probe("result_aliases_user_object")
                    return
        if isinstance(res, np.ndarray) and res.flags.writeable and res.size:
            flat = res.reshape(-1) if res.flags.c_contiguous else None
            if flat is not None and res.dtype.kind == "f":
                for i in range(min(flat.size, 6)):
                    flat[rs.randrange(flat.size)] = rs.uniform(-9, 9)
            else:
                res[...] = 7
            w.scribbled.append(res)
            w.probe("result_scribbled")

    return Bound("noise", "scribble", call=call)


# ------------------------------------------------------------------------------------------------
# deliberately invalid arguments


def corrupt(v, kind, k):
    """A deterministic wrong value for an argument of the given kind."""
    if kind in ("basis",):
        choices = ["empty", "nonshell", "bare", "none", "str"]
        c = choices[k % len(choices)]
        if c == "empty":
            return []
        if c == "nonshell":
            return list(v) + ["not a shell"]
        if c == "bare":
            return v[0] if len(v) else None
        if c == "str":
            return "basis"
        return None
    if kind == "bdict":
        return [None, {}, {"Xx": []}][k % 3]
    if kind == "atoms":
        c = k % 8
        if c == 6:
            return [str(a).upper() for a in v]
        if c == 7:
            return [str(a).lower() for a in v]
        if c == 4:
            return list(v)[:-1]
        if c == 5:
            return list(v) + list(v)
        if c == 0:
            return list(v) + ["H"]
        if c == 1:
            return [1] * len(v)
        if c == 2:
            return "".join(v)
        return None
    if kind == "ct":
        seq = [v] if isinstance(v, str) else list(v)
        c = k % 12
        if c in (5, 10, 11):
            return seq[:1] if len(seq) != 1 else seq + seq  # one entry for many shells (or two for one)
        if c == 6:
            return tuple(seq[:1]) if len(seq) != 1 else tuple(seq + seq)
        if c == 7:
            return seq[:-1]
        if c == 8:
            return []
        if c == 9:
            return seq + seq
        if c == 0:
            return "sphericalish"
        if c == 1:
            return (list(v) if not isinstance(v, str) else [v]) + ["cartesian"]
        if c == 2:
            return ["bogus"] * (len(v) if not isinstance(v, str) else 1)
        if c == 3:
            return None
        return 3
    if isinstance(v, np.ndarray):
        choices = ["none", "list", "flat", "extra_dim", "int", "complex", "trunc", "str", "neg", "float", "asym",
                   "empty"]
        c = choices[k % len(choices)]
        if c == "none":
            return None
        if c == "list":
            return v.tolist()
        if c == "flat":
            return v.reshape(-1)
        if c == "extra_dim":
            return v[None]
        if c == "int":
            return v.astype(int)
        if c == "complex":
            return v.astype(complex)
        if c == "trunc":
            return v[..., :-1] if v.ndim and v.shape[-1] > 0 else v.reshape(-1)
        if c == "str":
            return "array"
        if c == "neg":
            return -np.abs(v) - 1
        if c == "float":
            return v.astype(float) + 0.5
        if c == "asym":
            if v.ndim == 2 and v.shape[0] == v.shape[1] and v.shape[0] > 1:
                out = v.copy()
                out[0, -1] += 1.0
                return out
            return v[::-1]
        return v[:0]
    if isinstance(v, str):
        return ["bogus", None, 1][k % 3]
    # scalars / None
    return ["x", None, -1.0, True, float("nan"), [1]][k % 6]


# ------------------------------------------------------------------------------------------------
# queries


def _mk_dm(rs, n, mode):
    if n == 0:
        return np.zeros((0, 0))
    if mode == "zero":
        return np.zeros((n, n))
    a = np.array([[rs.uniform(-1, 1) for _ in range(max(1, (n + 1) // 2))] for _ in range(n)])
    if mode == "psd":
        return a.dot(a.T)
    b = np.array([[rs.uniform(-1, 1) for _ in range(n)] for _ in range(n)])
    out = (b + b.T) / 2
    if mode == "nearsym":  # symmetric to round-off only, as a matrix read from a file or built as C n C^T is
        out = out * (1.0 + 1e-13 * np.array([[rs.uniform(-1, 1) for _ in range(n)] for _ in range(n)]))
    return out


def _mk_charges(rs, n, mode):
    if mode == "ints":
        return np.array([float(rs.randint(1, 9)) for _ in range(n)])
    out = [rs.uniform(0.5, 9.0) for _ in range(n)]
    if mode == "ghost":
        for i in range(n):
            if rs.random() < 0.6:
                out[i] = 0.0
    return np.array(out, dtype=float).reshape(n)


def r_query(w, op):
    api = w.api
    fn_name = op["fn"]
    P = op["params"]
    d = op["d"]
    rs = random.Random(op["seed"])
    p_reuse = op["reuse"]

    def reuse():
        return rs.random() < p_reuse

    args = []  # [name, value, kind]
    kwargs = []  # [name, value, kind]

    is_eri = fn_name == "electron_repulsion_integral" or (
        fn_name.startswith("cls_") and P["cls"] == "ElectronRepulsionIntegral")
    max_work = None
    if is_eri:
        caps = (14, 2, 2)
        max_work = 14
    else:
        caps = COST_CAPS.get(fn_name, (40, 4, 8))
    if op.get("big") and fn_name in BIG_OK:
        caps = BIG_OK[fn_name]
        if op.get("huge") and fn_name in HUGE_OK:
            caps = HUGE_OK[fn_name]
    max_pts = caps[2]
    if op.get("heavy"):
        # a dedicated d shell with four primitives: the (dd|dd) block has 23 M intermediate elements
        hs = w.classes["base"](2, np.array([rs.uniform(-1, 1) for _ in range(3)]),
                               np.array([[rs.uniform(0.2, 1.0)] for _ in range(4)]),
                               np.array([rs.uniform(0.3, 3.0) for _ in range(4)]), rs.choice(["cartesian", "spherical"]))
        w.shells.append(Entry(hs, meta={"cls": "base"}))
        basis = [hs]
        w.containers.append(Entry(basis))
        w.probe("heavy_two_electron_block")
    else:
        basis = w.basis(d[0], True, max_nbf=caps[0], max_l=caps[1], max_work=max_work)
    nbf = w.nbf(basis)
    if len(set(map(id, basis))) < len(basis):
        w.probe("query_on_container_with_repeated_shell")

    def transform_for(n, idx):
        mode = op.get("transform")
        if not mode:
            return None
        T = n if mode == "square" else max(1, (n + 1) // 2)
        return w.array("transform", (T, n), d[idx], reuse(),
                       lambda: np.array([[rs.uniform(-1, 1) for _ in range(n)] for _ in range(T)]).reshape(T, n))

    def dm_for(n, idx):
        return w.array("dm", (n, n), d[idx], reuse(), lambda: _mk_dm(rs, n, P["dm"]))

    big = bool(op.get("big")) and fn_name in BIG_OK

    def pts(idx):
        lo = 1
        if big and max_pts >= 50:
            lo = 4200 if max_pts >= 6000 else 50
        return w.points(d[idx], reuse(), rs, max_n=max_pts, min_n=lo)

    def charges_for(n, idx):
        return w.array("charges", (n,), d[idx], reuse(), lambda: _mk_charges(rs, n, P["charges"]))

    def int_array(role, vals, idx):
        want = np.array(vals, dtype=int)

        def pred_arr():
            for e in w.arrays:
                if e.role == role and e.obj.shape == want.shape and np.array_equal(e.obj, want):
                    return e.obj
            return None

        if reuse():
            got = pred_arr()
            if got is not None:
                w.probe("reused_pool_object")
                return got
        w.arrays.append(Entry(want, role))
        return want

    def float_vec(role, vals, idx):
        return w.array(role, (len(vals),), d[idx], reuse(), lambda: np.array(vals, dtype=float))

    tr = None
    two_index = {
        "overlap_integral", "kinetic_energy_integral", "momentum_integral", "angular_momentum_integral",
    }
    dens3 = {
        "evaluate_density_gradient", "evaluate_density_laplacian", "evaluate_density_hessian",
    }
    if fn_name in two_index:
        args.append(["basis", basis, "basis"])
        tr = transform_for(nbf, 1)
        if tr is not None:
            kwargs.append(["transform", tr, "transform"])
        if fn_name == "overlap_integral" and P["tol_screen"] is not None:
            kwargs.append(["tol_screen", P["tol_screen"], "scalar"])
    elif fn_name == "overlap_integral_asymmetric":
        b2 = basis if P["same_basis"] else w.basis(d[2], True, max_nbf=40, max_l=4)
        if b2 is basis:
            w.probe("aliased_arguments")
        args += [["basis_one", basis, "basis"], ["basis_two", b2, "basis"]]
        if op.get("transform"):
            kwargs.append(["transform_one", transform_for(nbf, 1), "transform"])
            if rs.random() < 0.5:
                kwargs.append(["transform_two", transform_for(w.nbf(b2), 3), "transform"])
    elif fn_name == "moment_integral":
        args += [["basis", basis, "basis"], ["moment_coord", float_vec("origin", P["moment_coord"], 1), "vec3"],
                 ["moment_orders", int_array("morders", P["moment_orders"], 2), "orders"]]
        tr = transform_for(nbf, 3)
        if tr is not None:
            kwargs.append(["transform", tr, "transform"])
    elif fn_name in ("point_charge_integral", "nuclear_electron_attraction_integral"):
        p = pts(1)
        args += [["basis", basis, "basis"], ["coords", p, "coords"],
                 ["charges", charges_for(p.shape[0], 2), "charges"]]
        tr = transform_for(nbf, 3)
        if tr is not None:
            kwargs.append(["transform", tr, "transform"])
    elif fn_name == "electron_repulsion_integral":
        args.append(["basis", basis, "basis"])
        tr = transform_for(nbf, 1)
        if tr is not None:
            kwargs.append(["transform", tr, "transform"])
        kwargs.append(["notation", P["notation"], "str"])
    elif fn_name == "evaluate_basis":
        args += [["basis", basis, "basis"], ["points", pts(1), "coords"]]
        tr = transform_for(nbf, 2)
        if tr is not None:
            kwargs.append(["transform", tr, "transform"])
    elif fn_name == "evaluate_deriv_basis":
        args += [["basis", basis, "basis"], ["points", pts(1), "coords"],
                 ["orders", int_array("orders", P["orders"], 2), "orders"]]
        tr = transform_for(nbf, 3)
        if tr is not None:
            kwargs.append(["transform", tr, "transform"])
        kwargs.append(["deriv_type", P["deriv_type"], "str"])
    elif fn_name == "evaluate_density_using_evaluated_orbs":
        def mk_orbs():
            n, m = rs.randint(1, 5), rs.randint(1, 4)
            return np.array([[rs.uniform(-1, 1) for _ in range(m)] for _ in range(n)]).reshape(n, m)

        orbs = w.array("orbs", None, d[1], True, mk_orbs)
        args += [["one_density_matrix", dm_for(orbs.shape[0], 2), "dm"], ["orb_eval", orbs, "orbs"]]
    elif fn_name in ("evaluate_density", "evaluate_posdef_kinetic_energy_density") or fn_name in dens3:
        tr = transform_for(nbf, 1)
        norb = tr.shape[0] if tr is not None else nbf
        args += [["one_density_matrix", dm_for(norb, 2), "dm"], ["basis", basis, "basis"],
                 ["points", pts(3), "coords"]]
        if tr is not None:
            kwargs.append(["transform", tr, "transform"])
        if fn_name != "evaluate_density":
            kwargs.append(["deriv_type", P["deriv_type"], "str"])
        if fn_name in ("evaluate_density", "evaluate_posdef_kinetic_energy_density") and rs.random() < 0.5:
            kwargs.append(["threshold", P["threshold"], "scalar"])
    elif fn_name == "evaluate_general_kinetic_energy_density":
        tr = transform_for(nbf, 1)
        norb = tr.shape[0] if tr is not None else nbf
        args += [["one_density_matrix", dm_for(norb, 2), "dm"], ["basis", basis, "basis"],
                 ["points", pts(3), "coords"], ["alpha", P["alpha"], "scalar"]]
        if tr is not None:
            kwargs.append(["transform", tr, "transform"])
        kwargs.append(["deriv_type", P["deriv_type"], "str"])
    elif fn_name == "evaluate_deriv_reduced_density_matrix":
        tr = transform_for(nbf, 1)
        norb = tr.shape[0] if tr is not None else nbf
        args += [["orders_one", int_array("orders", P["orders_one"], 4), "orders"],
                 ["orders_two", int_array("orders", P["orders_two"], 5), "orders"],
                 ["one_density_matrix", dm_for(norb, 2), "dm"], ["basis", basis, "basis"],
                 ["points", pts(3), "coords"]]
        if tr is not None:
            kwargs.append(["transform", tr, "transform"])
        kwargs.append(["deriv_type", P["deriv_type"], "str"])
    elif fn_name == "evaluate_deriv_density":
        tr = transform_for(nbf, 1)
        norb = tr.shape[0] if tr is not None else nbf
        args += [["orders", int_array("orders", P["orders"], 4), "orders"],
                 ["one_density_matrix", dm_for(norb, 2), "dm"], ["basis", basis, "basis"],
                 ["points", pts(3), "coords"]]
        if tr is not None:
            kwargs.append(["transform", tr, "transform"])
        kwargs.append(["deriv_type", P["deriv_type"], "str"])
    elif fn_name == "electrostatic_potential":
        tr = transform_for(nbf, 1)
        norb = tr.shape[0] if tr is not None else nbf
        p = pts(3)
        if P["same_points_nuclei"]:
            nuc = p
            w.probe("aliased_arguments")
        else:
            nuc = w.points(d[4], reuse(), rs, max_n=max_pts)
        args += [["basis", basis, "basis"], ["one_density_matrix", dm_for(norb, 2), "dm"], ["points", p, "coords"],
                 ["nuclear_coords", nuc, "coords"], ["nuclear_charges", charges_for(nuc.shape[0], 5), "charges"]]
        if tr is not None:
            kwargs.append(["transform", tr, "transform"])
        if rs.random() < 0.6:
            kwargs.append(["threshold_dist", P["threshold_dist"], "scalar"])
    elif fn_name in ("evaluate_stress_tensor", "evaluate_ehrenfest_force", "evaluate_ehrenfest_hessian"):
        tr = transform_for(nbf, 1)
        norb = tr.shape[0] if tr is not None else nbf
        args += [["one_density_matrix", dm_for(norb, 2), "dm"], ["basis", basis, "basis"],
                 ["points", pts(3), "coords"]]
        kwargs += [["alpha", P["alpha"], "scalar"], ["beta", P["beta"], "scalar"]]
        if tr is not None:
            kwargs.append(["transform", tr, "transform"])
        if fn_name == "evaluate_ehrenfest_hessian":
            kwargs.append(["symmetric", P["symmetric"], "flag"])
    elif fn_name == "generate_transformation":
        sh = basis[d[1] % len(basis)]
        try:
            sph = sh.angmom_components_sph
        except ValueError:  # wrapper shells may not define a spherical convention for this angmom
            l = sh.angmom
            sph = tuple(["s%d" % m for m in range(l, 0, -1)] + ["c%d" % m for m in range(l + 1)])
        args += [["angmom", sh.angmom, "scalar"], ["cartesian_order", sh.angmom_components_cart, "orders"],
                 ["spherical_order", sph, "sph"], ["apply_from", P["apply_from"], "str"]]
    elif fn_name == "real_solid_harmonic":
        l = P["orders"][0] + P["orders"][1]
        m = (P["orders"][2] % (2 * l + 1)) - l
        args += [["angmom", l, "scalar"], ["mag", m, "scalar"]]
    elif fn_name in ("expansion_coeff", "harmonic_norm", "shift_factor"):
        l = P["orders"][0] + P["orders"][1]
        m = (P["orders"][2] % (2 * l + 1)) - l
        if fn_name == "shift_factor":
            args.append(["mag", m, "scalar"])
        elif fn_name == "harmonic_norm":
            args += [["angmom", l, "scalar"], ["mag", m, "scalar"]]
        else:
            i, j, k = P["orders_one"]
            args += [["angmom", l, "scalar"], ["mag", m, "scalar"], ["i", i, "scalar"], ["j", j, "scalar"],
                     ["k", k, "scalar"]]
    elif fn_name == "permutation_libcint":
        cands = [e.obj for e in w.shells if hasattr(e.obj, "permutation_libcint")]
        if not cands:
            return Bound("query", "permutation_libcint", skip="no iodata shell")
        sh = cands[d[1] % len(cands)]
        b = Bound("query", "IODataShell.permutation_libcint", call=sh.permutation_libcint, args=[sh])
        return b
    elif fn_name == "boys_func":
        m = 1 + P["orders"][0]
        n, kb, ka = 1 + P["orders"][1], 1 + P["orders_one"][0], 1 + P["orders_two"][0]
        scale = [1.0, 30.0, 400.0][d[2] % 3]

        def mk_wd():
            return np.array([rs.uniform(0, 1) * scale for _ in range(n * kb * ka)]).reshape(1, n, kb, ka)

        wd = w.array("boys_wd", (1, n, kb, ka), d[1], reuse(), mk_wd)
        od = int_array("boys_orders", [[[[i]]] for i in range(m)], 3)
        fn = w.api.cls["PointChargeIntegral"].boys_func
        return _finish_query(w, op, "PointChargeIntegral.boys_func", fn, [["orders", od, "orders"],
                                                                          ["weighted_dist", wd, "coords"]], [])
    elif fn_name == "factorial2":
        args.append(["n", int_array("orders", [2 * x - 1 for x in P["orders"]], 1), "orders"])
    elif fn_name == "is_integral_screened":
        s1 = basis[d[1] % len(basis)]
        s2 = basis[d[2] % len(basis)]
        args += [["contractions_one", s1, "shell"], ["contractions_two", s2, "shell"],
                 ["tol_screen", P["tol_screen"], "scalar"]]
    elif fn_name == "cls_contraction":
        return _bind_cls_contraction(w, op, basis, rs, reuse, pts, charges_for, int_array, float_vec)
    elif fn_name == "cls_array":
        return _bind_cls_array(w, op, basis, nbf, rs, reuse, pts, charges_for, int_array, float_vec, transform_for)
    else:
        raise HarnessError(f"unknown query {fn_name}")

    fn = api.fn[fn_name]
    return _finish_query(w, op, fn_name, fn, args, kwargs)


def _finish_query(w, op, label, fn, args, kwargs):
    valid = True
    inv = op.get("invalid")
    if inv and not op.get("keep"):
        allv = args + kwargs
        if allv:
            t = allv[inv["arg"] % len(allv)]
            t[1] = corrupt(t[1], t[2], inv["kind"])
            valid = False
    a = [x[1] for x in args]
    kw = {x[0]: x[1] for x in kwargs}
    ids = [id(x) for x in a + list(kw.values()) if isinstance(x, (np.ndarray, list, tuple))]
    if len(set(ids)) < len(ids):
        w.probe("aliased_arguments")
    keep = op.get("keep")

    def post(value):
        if keep and isinstance(value, np.ndarray) and value.ndim == 2:
            if keep == "dm" and value.shape[0] == value.shape[1]:
                w.arrays.append(Entry(value, "dm"))
                w.probe("result_reused_as_argument")
            elif keep == "orbs":
                w.arrays.append(Entry(value, "orbs"))
                w.probe("result_reused_as_argument")

    b = Bound("W" if keep else "query", label, call=lambda: fn(*a, **kw), args=a + list(kw.values()), post=post)
    b.valid = valid
    return b


def _bind_cls_contraction(w, op, basis, rs, reuse, pts, charges_for, int_array, float_vec):
    P = op["params"]
    d = op["d"]
    name = P["cls"]
    cls = w.api.cls[name]
    s1 = basis[d[1] % len(basis)]
    s2 = basis[d[2] % len(basis)]
    if s1 is s2:
        w.probe("aliased_arguments")
    args = []
    kwargs = []
    if name in ("Overlap", "KineticEnergyIntegral", "MomentumIntegral", "AngularMomentumIntegral", "OverlapAsymmetric"):
        args += [["c1", s1, "shell"], ["c2", s2, "shell"]]
        if name == "Overlap" and P["tol_screen"] is not None:
            kwargs.append(["tol_screen", P["tol_screen"], "scalar"])
    elif name == "Moment":
        args += [["c1", s1, "shell"], ["c2", s2, "shell"],
                 ["moment_coord", float_vec("origin", P["moment_coord"], 3), "vec3"],
                 ["moment_orders", int_array("morders", P["moment_orders"], 4), "orders"]]
    elif name == "Eval":
        args += [["c1", s1, "shell"], ["points", pts(3), "coords"]]
    elif name == "EvalDeriv":
        args += [["c1", s1, "shell"], ["points", pts(3), "coords"],
                 ["orders", int_array("orders", P["orders"], 4), "orders"]]
        kwargs.append(["deriv_type", P["deriv_type"], "str"])
    elif name == "PointChargeIntegral":
        p = pts(3)
        args += [["c1", s1, "shell"], ["c2", s2, "shell"], ["points_coords", p, "coords"],
                 ["points_charge", charges_for(p.shape[0], 4), "charges"]]
    elif name == "ElectronRepulsionIntegral":
        s3 = basis[d[3] % len(basis)]
        s4 = basis[d[4] % len(basis)]
        args += [["c1", s1, "shell"], ["c2", s2, "shell"], ["c3", s3, "shell"], ["c4", s4, "shell"]]
    return _finish_query(w, op, name + ".construct_array_contraction", cls.construct_array_contraction, args, kwargs)


def _bind_cls_array(w, op, basis, nbf, rs, reuse, pts, charges_for, int_array, float_vec, transform_for,
                    instance=None, name=None):
    P = op["params"]
    d = op["d"]
    name = name or P["cls"]
    cls = w.api.cls[name]
    method = P["method"]
    extra = []
    if name == "Overlap" and P["tol_screen"] is not None:
        extra.append(["tol_screen", P["tol_screen"], "scalar"])
    elif name == "Moment":
        extra += [["moment_coord", float_vec("origin", P["moment_coord"], 3), "vec3"],
                  ["moment_orders", int_array("morders", P["moment_orders"], 4), "orders"]]
    elif name == "Eval":
        extra.append(["points", pts(3), "coords"])
    elif name == "EvalDeriv":
        extra += [["points", pts(3), "coords"], ["orders", int_array("orders", P["orders"], 4), "orders"],
                  ["deriv_type", P["deriv_type"], "str"]]
    elif name == "PointChargeIntegral":
        p = pts(3)
        extra += [["points_coords", p, "coords"], ["points_charge", charges_for(p.shape[0], 4), "charges"]]
    asym = name == "OverlapAsymmetric"
    cts = [s.coord_type for s in basis]

    def ct_form():
        """The documented forms of a coordinate-type argument: list, tuple, or one string for all shells."""
        r = rs.random()
        if r < 0.2 and len(set(cts)) == 1 and method == "lincomb":
            return cts[0]
        return tuple(cts) if r < 0.5 else list(cts)

    args = [["basis", basis, "basis"]]
    if asym:
        args.append(["basis_two", basis, "basis"])
    margs = []
    if method == "mix":
        margs.append(["coord_types", ct_form(), "ct"])
        if asym:
            margs.append(["coord_types_two", ct_form(), "ct"])
    elif method == "lincomb":
        n = sum(((2 * s.angmom + 1) if s.coord_type == "spherical" else ((s.angmom + 1) * (s.angmom + 2)) // 2)
                * s.coeffs.shape[1] for s in basis)
        T = max(1, (n + 1) // 2)
        t = w.array("transform", (T, n), d[5], reuse(),
                    lambda: np.array([[rs.uniform(-1, 1) for _ in range(n)] for _ in range(T)]).reshape(T, n))
        if asym:
            margs += [["transform_one", t, "transform"], ["transform_two", t, "transform"],
                      ["coord_type_one", ct_form(), "ct"], ["coord_type_two", ct_form(), "ct"]]
        else:
            margs += [["transform", t, "transform"], ["coord_type", ct_form(), "ct"]]
    allv = (margs + extra) if instance is not None else (args + margs + extra)
    valid = True
    inv = op.get("invalid")
    if inv and allv:
        t = allv[inv["arg"] % len(allv)]
        t[1] = corrupt(t[1], t[2], inv["kind"])
        valid = False
    ctor = [x[1] for x in args]
    ma = [x[1] for x in margs]
    kw = {x[0]: x[1] for x in extra}

    def fresh_call():
        inst = cls(*ctor)
        return getattr(inst, "construct_array_" + method)(*ma, **kw)

    if instance is None:
        b = Bound("query", f"{name}.construct_array_{method}", call=fresh_call, args=ctor + ma + list(kw.values()))
    else:
        # a retained instance: the constructor arguments stay under observation, and the answer must be that
        # of an instance built now from the same basis (oracle O6)
        b = Bound("query", f"{name}(retained).construct_array_{method}",
                  call=lambda: getattr(instance, "construct_array_" + method)(*ma, **kw),
                  args=ctor + ma + list(kw.values()))
        if valid:
            b.twin_call = fresh_call
        w.probe("call_on_retained_instance")
    b.valid = valid
    return b


RESOLVERS = {
    "new_coords": r_new_coords,
    "new_shell": r_new_shell,
    "ctor": r_new_shell,
    "copy_shell": r_copy_shell,
    "new_container": r_new_container,
    "write_file": r_write_file,
    "parse": r_parse,
    "make_contr": r_make_contr,
    "new_mole": r_new_mole,
    "from_pyscf": r_from_pyscf,
    "new_iodata": r_new_iodata,
    "from_iodata": r_from_iodata,
    "new_instance": r_new_instance,
    "inst_call": r_inst_call,
    "update": r_update,
    "scribble": r_scribble,
    "query": r_query,
}
