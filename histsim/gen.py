"""Blind generation of histories: every choice comes from one ``random.Random``.

Operations are self-contained JSON objects.  References to pool objects are raw integer draws that
are resolved modulo the size of the candidate set at execution time, so any subsequence of a
history is itself an executable history (needed for ddmin and replay).
"""
import math
import os
import random

from . import bswriter

D = 1 << 30

QUERY_FNS = [
    # name, relative weight, cost class
    ("overlap_integral", 6, 1),
    ("overlap_integral_asymmetric", 3, 1),
    ("kinetic_energy_integral", 3, 1),
    ("momentum_integral", 2, 1),
    ("angular_momentum_integral", 2, 1),
    ("moment_integral", 3, 1),
    ("point_charge_integral", 3, 2),
    ("nuclear_electron_attraction_integral", 3, 2),
    ("electron_repulsion_integral", 2, 3),
    ("evaluate_basis", 5, 1),
    ("evaluate_deriv_basis", 4, 1),
    ("evaluate_density_using_evaluated_orbs", 2, 1),
    ("evaluate_density", 4, 1),
    ("evaluate_deriv_reduced_density_matrix", 2, 1),
    ("evaluate_deriv_density", 2, 1),
    ("evaluate_density_gradient", 2, 1),
    ("evaluate_density_laplacian", 2, 1),
    ("evaluate_density_hessian", 2, 2),
    ("evaluate_posdef_kinetic_energy_density", 2, 1),
    ("evaluate_general_kinetic_energy_density", 2, 2),
    ("electrostatic_potential", 8, 2),
    ("evaluate_stress_tensor", 2, 2),
    ("evaluate_ehrenfest_force", 2, 2),
    ("evaluate_ehrenfest_hessian", 1, 3),
    ("generate_transformation", 2, 1),
    ("real_solid_harmonic", 1, 1),
    ("expansion_coeff", 1, 1),
    ("harmonic_norm", 1, 1),
    ("shift_factor", 1, 1),
    ("permutation_libcint", 1, 1),
    ("boys_func", 1, 1),
    ("factorial2", 1, 1),
    ("is_integral_screened", 1, 1),
    ("cls_contraction", 3, 1),
    ("cls_array", 3, 1),
]

IMPORT_QUERIES = ["parse", "make_contr", "from_pyscf", "from_iodata"]

CLS_NAMES = ["Overlap", "KineticEnergyIntegral", "MomentumIntegral", "Moment", "Eval", "EvalDeriv",
             "PointChargeIntegral", "AngularMomentumIntegral", "OverlapAsymmetric", "ElectronRepulsionIntegral"]

NP_MODES = ["ignore", "warn", "raise", "call"]


def gen_config(rng, profile):
    """Swarm configuration of one run."""
    fault_free = rng.random() < 0.25
    kinds = ["line_fault", "ambient_fp", "warnings_as_errors", "special_fn_raise", "fs_fault", "invalid_args"]
    enabled = [k for k in kinds if rng.random() < 0.7]
    if fault_free:
        enabled = []
    cfg = {
        "profile": profile,
        "n_ops": rng.choice([3, 5, 8, 12, 16, 20, 25, 30]),
        "max_l": rng.choice([0, 1, 2, 2, 3, 3]),
        "max_K": rng.choice([1, 2, 3, 4]),
        "max_M": rng.choice([1, 1, 2, 3]),
        "max_pts": rng.choice([1, 2, 4, 8]),
        "coord_scale": rng.choice([1.0, 1.0, 2.0, 6.0, 40.0]),
        "p_reuse": rng.choice([0.6, 0.85, 0.97]),
        "p_invalid": rng.choice([0.05, 0.15, 0.3]) if "invalid_args" in enabled else 0.0,
        "p_fault": rng.choice([0.15, 0.3, 0.5]) if enabled else 0.0,
        "p_transform": rng.choice([0.0, 0.2, 0.5]),
        "enabled": enabled,
        "fault_free": fault_free,
        "site_strategy": rng.choice(["event", "site", "site", "dirty", "dirty"]),
        "fs": "real" if rng.random() < 0.08 else "sim",
        "file_size": rng.choice(["small", "small", "medium", "full"]) if profile == "C18" else "small",
        "focus": rng.choice([None, None, "electrostatic_potential", "import", "eval", "integral", "update", "screen"]),
        "p_reissue": rng.choice([0.0, 0.4, 0.8]),
        "p_big": rng.choice([0.0, 0.0, 0.0, 0.3]),
        # thorough tier only: now and then one electron-repulsion call on a d shell with four primitives (seconds per
        # call; reaches the large-block paths of the two-electron kernel)
        "p_heavy": 0.003 if os.environ.get("HISTSIM_TIER") == "thorough" else 0.0,
    }
    return cfg


def _weights(cfg):
    if cfg["profile"] == "C18":
        w = {
            "new_coords": 4, "new_shell": 2, "copy_shell": 0, "ctor": 1, "new_container": 2, "write_file": 14, "parse": 16,
            "make_contr": 18, "new_mole": 5, "from_pyscf": 8, "new_iodata": 1, "from_iodata": 1, "update": 3, "scribble": 2,
            "query": 10, "new_instance": 0, "inst_call": 0,
        }
    else:
        w = {
            "new_coords": 6, "new_shell": 8, "copy_shell": 2, "ctor": 3, "new_container": 6, "write_file": 3, "parse": 3,
            "make_contr": 7, "new_mole": 2, "from_pyscf": 3, "new_iodata": 2, "from_iodata": 3, "update": 9, "scribble": 4,
            "query": 52, "new_instance": 2, "inst_call": 5,
        }
    f = cfg.get("focus")
    if f == "import":
        for k in ("write_file", "parse", "make_contr", "from_pyscf", "from_iodata"):
            w[k] *= 3
    elif f in ("update", "screen"):
        w["update"] *= 3
    return w


def _scenario(rng, cfg, profile):
    """Scripted multi-step openings (random fill follows): the sequences that expose things remembered
    across calls - import, update in place, import again; ask, update, ask again; ..."""
    names = ["import_update_reimport", "ask_update_ask", "screening", "iodata_twice", "overwrite_reparse",
             "retained_instance"]
    if profile == "C18":
        names = ["import_update_reimport", "overwrite_reparse", "import_update_reimport", "pyscf_twice"]
    name = rng.choice(names)
    cfg["scenario"] = name
    quiet = dict(cfg, p_fault=0.0, p_invalid=0.0)
    ops = []
    if name == "import_update_reimport":
        ops.append(g_write_file(rng, cfg, new=True))
        ops.append(g_parse(rng, cfg, keep=True))
        ops.append(g_make_contr(rng, cfg, keep=True))
        if rng.random() < 0.5:
            ops.append(g_query(rng, quiet, fn=rng.choice(["overlap_integral", "evaluate_basis", "kinetic_energy_integral"])))
        u = g_update(rng, quiet)
        u["what"] = rng.choice(["exps", "coeffs"])
        u["how"] = "inplace"
        ops.append(u)
        ops.append(g_parse(rng, quiet, keep=False))
        ops.append(g_make_contr(rng, quiet, keep=False))
        ops.append(g_parse(rng, quiet, keep=True))
        ops.append(g_make_contr(rng, quiet, keep=True))
    elif name == "ask_update_ask":
        for _ in range(rng.randint(1, 2)):
            ops.append(g_new_shell(rng, cfg))
        ops.append(g_new_container(rng, cfg))
        q = g_query(rng, quiet)
        q["keep"] = None
        ops.append(q)
        for _ in range(rng.randint(1, 3)):
            u = g_update(rng, quiet)
            ops.append(u)
            ops.append(dict(q))
    elif name == "screening":
        a, b = _exp(rng), _exp(rng)
        tol = math.exp(rng.uniform(math.log(1e-10), math.log(0.5)))
        cutoff = math.sqrt(-(a + b) / (a * b) * math.log(tol))
        dist = cutoff * rng.choice([0.8, 0.9, 0.97, 1.03, 1.1, 1.25])
        for k, (e, xyz) in enumerate(((a, [0.0, 0.0, 0.0]), (b, [dist, 0.0, 0.0]))):
            sh = g_new_shell(rng, cfg)
            sh.update({"exps": [e, e * 3.1][: rng.randint(1, 2)], "coord": {"mode": "fresh", "xyz": xyz},
                       "share": {"mode": "none"}, "coeffs1d": False, "cls": "base"})
            sh["coeffs"] = [[_coef(rng)] for _ in sh["exps"]]
            ops.append(sh)
        # a third shell further out (a second screened pair of the same block shape), and now and then a
        # degenerate column (infinite norm_cont) on one of the shells
        sh = g_new_shell(rng, cfg)
        sh.update({"exps": [b], "coeffs": [[_coef(rng)]], "coord": {"mode": "fresh", "xyz": [0.0, dist * 1.7, 0.0]},
                   "share": {"mode": "none"}, "coeffs1d": False, "cls": "base", "angmom": ops[-1]["angmom"]})
        ops.append(sh)
        lsame = ops[-1]["angmom"]
        for o in ops[-3:]:
            o["angmom"] = lsame  # equal block shapes
        if rng.random() < 0.4:
            tgt = ops[-3 + rng.randrange(3)]
            tgt["coeffs"] = [[0.0] for _ in tgt["coeffs"]]
        ops.append({"op": "new_container", "type": "list", "members": [0, 1, 2]})
        q = g_query(rng, quiet, fn="overlap_integral")
        q["params"]["tol_screen"] = tol
        q["keep"] = None
        q["transform"] = None
        ops.append(q)
        for _ in range(2):
            u = g_update(rng, quiet)
            u.update({"what": "exps", "how": rng.choice(["inplace", "rebind"]),
                      "factor": rng.choice([0.6, 0.75, 1.3, 1.6]), "sd": rng.randrange(3)})
            ops.append(u)
            ops.append(dict(q))
    elif name == "iodata_twice":
        ops.append(g_new_iodata(rng, cfg))
        ops.append(g_from_iodata(rng, quiet, keep=True))
        q = g_query(rng, quiet, fn=rng.choice(["evaluate_basis", "overlap_integral", "kinetic_energy_integral"]))
        q["keep"] = None
        ops.append(q)
        ops.append(g_new_iodata(rng, cfg))
        ops.append(g_from_iodata(rng, quiet, keep=rng.random() < 0.5))
        ops.append(dict(q))
    elif name == "overwrite_reparse":
        ops.append(g_write_file(rng, cfg, new=True))
        ops.append(g_parse(rng, quiet, keep=rng.random() < 0.5))
        ops.append(g_write_file(rng, cfg, new=False))
        ops.append(g_parse(rng, quiet, keep=rng.random() < 0.5))
        ops.append(g_make_contr(rng, quiet, keep=False))
    elif name == "retained_instance":
        for _ in range(rng.randint(1, 2)):
            ops.append(g_new_shell(rng, cfg))
        ops.append(g_new_container(rng, cfg))
        ops.append(g_new_instance(rng, cfg))
        q = g_inst_call(rng, quiet)
        ops.append(q)
        for _ in range(rng.randint(1, 2)):
            ops.append(g_update(rng, quiet))
            ops.append(dict(q))
    elif name == "pyscf_twice":
        ops.append(g_new_mole(rng, cfg))
        ops.append(g_from_pyscf(rng, quiet, keep=rng.random() < 0.5))
        ops.append(g_from_pyscf(rng, quiet, keep=False))
        ops.append(g_from_pyscf(rng, quiet, keep=True))
    return ops


def gen_history(seed, profile):
    rng = random.Random(seed)
    cfg = gen_config(rng, profile)
    if cfg.get("p_big"):
        cfg["max_l"] = rng.choice([3, 4, 5])
    ops = []
    # preamble: something to work on
    if rng.random() < 0.35:
        ops.extend(_scenario(rng, cfg, profile))
    elif profile == "C18" or rng.random() < 0.3:
        ops.append(g_write_file(rng, cfg, new=True))
        ops.append(g_parse(rng, cfg, keep=True))
        ops.append(g_make_contr(rng, cfg, keep=True))
    else:
        for _ in range(rng.randint(1, 3)):
            ops.append(g_new_shell(rng, cfg))
        if rng.random() < 0.5:
            ops.append(g_new_container(rng, cfg))
    w = _weights(cfg)
    names = list(w)
    weights = [w[k] for k in names]
    if cfg.get("focus") == "screen":
        cfg["coord_scale"] = rng.choice([1.0, 2.0, 3.0])
    while len(ops) < cfg["n_ops"]:
        kind = rng.choices(names, weights)[0]
        ops.append(GEN[kind](rng, cfg))
        # "the same question again after the world changed": re-issue an earlier query right after a
        # parameter update / file overwrite (what exposes caches keyed by identity or path)
        if kind in ("update", "write_file") and rng.random() < cfg["p_reissue"]:
            earlier = [o for o in ops[:-1] if o["op"] in ("query", "parse", "make_contr", "from_pyscf", "from_iodata",
                                                          "inst_call")
                       and not o.get("keep")]
            if earlier:
                q = dict(earlier[-1 - rng.randrange(min(3, len(earlier)))])
                if rng.random() < 0.7:
                    q["fault"] = None
                    q["env"] = None
                ops.append(q)
    return cfg, ops[:30]


# ----------------------------------------------------------------------------------------------


def _xyz(rng, scale):
    r = rng.random()
    if r < 0.15:
        return [0.0, 0.0, 0.0]
    if r < 0.3:
        return [float(rng.randint(-2, 2)), float(rng.randint(-2, 2)), float(rng.randint(-2, 2))]
    return [rng.uniform(-1.5, 1.5) * scale for _ in range(3)]


def _exp(rng):
    r = rng.random()
    if r < 0.8:
        return math.exp(rng.uniform(math.log(0.08), math.log(20.0)))
    if r < 0.9:
        return math.exp(rng.uniform(math.log(20.0), math.log(5000.0)))
    return math.exp(rng.uniform(math.log(0.01), math.log(0.08)))


def _coef(rng):
    r = rng.random()
    if r < 0.1:
        return 1.0
    c = rng.uniform(0.05, 1.5)
    return c if rng.random() < 0.75 else -c


def g_new_coords(rng, cfg):
    return {
        "op": "new_coords",
        "n": rng.randint(1, cfg["max_pts"]),
        "mode": rng.choice(["random", "random", "centers", "copy"]),
        "seed": rng.randrange(D),
        "layout": rng.choice(["c", "c", "f", "strided"]),
        "scale": cfg["coord_scale"],
        "d": rng.randrange(D),
    }


def g_new_shell(rng, cfg):
    l = rng.randint(0, cfg["max_l"])
    K = rng.randint(1, cfg["max_K"])
    M = rng.randint(1, cfg["max_M"])
    r = rng.random()
    if r < 0.55:
        coord = {"mode": "fresh", "xyz": _xyz(rng, cfg["coord_scale"])}
    else:
        coord = {"mode": "row", "d": rng.randrange(D), "r": rng.randrange(D), "xyz": _xyz(rng, cfg["coord_scale"])}
    r = rng.random()
    if r < 0.6:
        share = {"mode": "none"}
    elif r < 0.8:
        share = {"mode": "exps", "d": rng.randrange(D)}
    else:
        share = {"mode": "both", "d": rng.randrange(D)}
    coeffs = [[_coef(rng) for _ in range(M)] for _ in range(K)]
    if rng.random() < 0.12:  # a column of very small or very large coefficients is as valid as any other
        j = rng.randrange(M)
        f = rng.choice([1e-5, 1e-9, 1e-3, 1e4])
        for row in coeffs:
            row[j] *= f
    if rng.random() < 0.07:  # a degenerate but accepted contraction: one column of zeros (infinite norm_cont)
        j = rng.randrange(M)
        for row in coeffs:
            row[j] = 0.0
    return {
        "op": "new_shell",
        "angmom": l,
        "exps": [_exp(rng) for _ in range(K)],
        "coeffs": coeffs,
        "coeffs1d": M == 1 and rng.random() < 0.5,
        "coord": coord,
        "share": share,
        "ctype": rng.choice(["cartesian", "spherical", "spherical", "c", "p"]),
        "cls": rng.choice(["base", "base", "base", "conv", "pyscf", "unnorm", "cartperm", "sphperm", "instconv", "instconv"]),
        "variant": rng.randrange(3),
        "array_layout": rng.choice(["c", "c", "c", "strided", "column"]),
        "icenter": rng.choice([None, None, 0, 1, 2]),
    }


def g_ctor(rng, cfg):
    """Constructing a shell is a public call too: here the shell is discarded (a query)."""
    op = g_new_shell(rng, cfg)
    op["keep"] = False
    op["env"] = g_env(rng, cfg)
    op["fault"] = g_fault(rng, cfg)
    op["invalid"] = g_invalid(rng, cfg)
    return op


def g_copy_shell(rng, cfg):
    return {"op": "copy_shell", "sd": rng.randrange(D), "deep": rng.random() < 0.3}


def g_new_container(rng, cfg):
    n = rng.choice([1, 1, 2, 2, 3, 4])
    if cfg.get("p_big") and rng.random() < 0.3:
        n = rng.randint(5, 10)
    return {
        "op": "new_container",
        "type": rng.choice(["list", "tuple"]),
        "members": [rng.randrange(D) for _ in range(n)],
    }


def _file_bounds(cfg):
    fs = cfg.get("file_size", "small")
    if fs == "full":
        return dict(max_elements=5, max_shells=8, max_l=7, max_prims=10, max_cols=6)
    if fs == "medium":
        return dict(max_elements=3, max_shells=5, max_l=5, max_prims=6, max_cols=4)
    return dict(
        max_elements=3, max_shells=3, max_l=min(cfg["max_l"], 3), max_prims=max(cfg["max_K"], 1),
        max_cols=max(cfg["max_M"], 1),
    )


def g_write_file(rng, cfg, new=None):
    spec = bswriter.gen_spec(rng, **_file_bounds(cfg))
    return {
        "op": "write_file",
        "pathd": rng.randrange(D),
        "new": (rng.random() < 0.5) if new is None else new,
        "spec": spec,
        # an overwrite may instead be a same-length revision of the stored file whose modification time is not
        # advanced (coarse time stamps, `cp -p`): what a cache keyed on (path, mtime, size) cannot see
        "tweak": rng.randrange(D) if rng.random() < 0.3 else None,
    }


def g_env(rng, cfg, force=False):
    """Ambient configuration around a call (None = simulator default)."""
    en = cfg["enabled"]
    env = {}
    p = cfg["p_fault"]
    if "ambient_fp" in en and (rng.random() < p or force):
        env["np"] = {k: rng.choice(NP_MODES) for k in ("divide", "over", "under", "invalid")}
        if rng.random() < 0.5:  # the configuration of a careful user: everything raises
            env["np"] = {k: "raise" for k in env["np"]}
    if "warnings_as_errors" in en and rng.random() < p * 0.6:
        env["warn"] = "error"
    if "special_fn_raise" in en and rng.random() < p * 0.5:
        env["sp"] = rng.choice(["all", "underflow", "loss", "no_result", "overflow"])
    return env or None


def g_fault(rng, cfg, importy=False):
    en = cfg["enabled"]
    p = cfg["p_fault"]
    if importy and "fs_fault" in en and rng.random() < p * 0.5:
        return {"kind": "fs", "which": rng.choice(["open_eacces", "open_eio", "read_eio"])}
    if "line_fault" in en and rng.random() < p:
        return {"kind": "line", "strategy": cfg["site_strategy"], "d": rng.randrange(D)}
    return None


def g_invalid(rng, cfg, boost=1.0):
    if rng.random() < min(0.6, cfg["p_invalid"] * boost):
        return {"arg": rng.randrange(D), "kind": rng.randrange(D)}
    return None


def g_parse(rng, cfg, keep=None):
    keep = (rng.random() < 0.4) if keep is None else keep
    op = {
        "op": "parse",
        "pathd": rng.randrange(D),
        "fmt": "auto" if rng.random() < 0.93 else rng.choice(["nwchem", "gbs"]),
        "keep": keep,
    }
    if not keep:
        op["env"] = g_env(rng, cfg)
        op["fault"] = g_fault(rng, cfg, importy=True)
        op["invalid"] = g_invalid(rng, cfg, boost=2.5)
    return op


def g_make_contr(rng, cfg, keep=None):
    keep = (rng.random() < 0.35) if keep is None else keep
    n = rng.randint(1, 5) if cfg["profile"] == "C18" else rng.randint(1, 3)
    op = {
        "op": "make_contr",
        "bd": rng.randrange(D),
        "atoms": [rng.randrange(D) for _ in range(n)],
        "atoms_type": rng.choice(["list", "tuple"]),
        "coords": {"reuse": rng.random() < cfg["p_reuse"], "d": rng.randrange(D), "seed": rng.randrange(D),
                   "scale": cfg["coord_scale"], "layout": rng.choice(["c", "c", "c", "f", "strided", "int"])},
        "ct": {
            "kind": rng.choice(["str", "list", "list", "tuple", "tuple"]),
            "reuse": rng.random() < cfg["p_reuse"],
            "d": rng.randrange(D),
            "seed": rng.randrange(D),
            "short": rng.random() < 0.4,
        },
        "keep": keep,
    }
    if not keep:
        op["env"] = g_env(rng, cfg)
        op["fault"] = g_fault(rng, cfg)
        op["invalid"] = g_invalid(rng, cfg, boost=2.5)
    return op


def g_new_mole(rng, cfg):
    syms = rng.sample(["H", "He", "Li", "C", "O", "Cl"], rng.randint(1, 3))
    if rng.random() < 0.25:  # pyscf allows labelled atoms (H1, O@2) with their own entry in _basis
        syms = [s_ + rng.choice(["1", "2", "@2", "9"]) for s_ in syms]
    basis = {}
    for s in syms:
        shells = []
        for _ in range(rng.randint(1, 3)):
            l = rng.randint(0, max(cfg["max_l"], 0))
            K = rng.randint(1, cfg["max_K"])
            M = rng.randint(1, cfg["max_M"])
            shells.append([l] + [[_exp(rng)] + [_coef(rng) for _ in range(M)] for _ in range(K)])
        basis[s] = shells
    n = rng.randint(1, 4)
    atoms = [[rng.choice(syms), _xyz(rng, cfg["coord_scale"])] for _ in range(n)]
    return {"op": "new_mole", "cart": rng.random() < 0.5, "atoms": atoms, "basis": basis,
            "coord_form": rng.choice(["list", "list", "tuple", "array"]),
            "row_form": rng.choice(["list", "list", "list", "tuple"]),
            "unit": rng.choice(["angstrom", "angstrom", "Bohr", "ANG", "B", "AU", "Angstrom"])}


def g_from_pyscf(rng, cfg, keep=None):
    keep = (rng.random() < 0.35) if keep is None else keep
    op = {"op": "from_pyscf", "md": rng.randrange(D), "keep": keep}
    if not keep:
        op["env"] = g_env(rng, cfg)
        op["fault"] = g_fault(rng, cfg)
        op["invalid"] = g_invalid(rng, cfg, boost=2.5)
    return op


CART_CONV = {
    0: ["1"], 1: ["x", "y", "z"], 2: ["xx", "xy", "xz", "yy", "yz", "zz"],
    3: ["xxx", "xxy", "xxz", "xyy", "xyz", "xzz", "yyy", "yyz", "yzz", "zzz"],
}


def _sph_conv(l, rng):
    out = ["c0"]
    for m in range(1, l + 1):
        out += ["c%d" % m, "s%d" % m]
    if rng.random() < 0.3:
        out = [("-" + x) if (i % 3 == 2) else x for i, x in enumerate(out)]
    return out


def g_new_iodata(rng, cfg):
    n = rng.randint(1, 3)
    atcoords = [_xyz(rng, cfg["coord_scale"]) for _ in range(n)]
    shells = []
    lmax = min(cfg["max_l"], 3)
    for _ in range(rng.randint(1, 4)):
        K = rng.randint(1, cfg["max_K"])
        l = rng.randint(0, lmax)
        shells.append({"icenter": rng.randrange(n), "l": l, "kind": rng.choice(["c", "p"]) if l >= 2 else "c",
                       "exps": [_exp(rng) for _ in range(K)], "coeffs": [_coef(rng) for _ in range(K)]})
    conv = {}
    for l in range(0, 4):
        c = list(CART_CONV[l])
        if rng.random() < 0.3:
            c = c[::-1]
        conv["%d,c" % l] = c
        if l >= 2 or rng.random() < 0.5:
            conv["%d,p" % l] = _sph_conv(l, rng)
    return {"op": "new_iodata", "atcoords": atcoords, "shells": shells, "conventions": conv}


def g_from_iodata(rng, cfg, keep=None):
    keep = (rng.random() < 0.35) if keep is None else keep
    op = {"op": "from_iodata", "md": rng.randrange(D), "keep": keep}
    if not keep:
        op["env"] = g_env(rng, cfg)
        op["fault"] = g_fault(rng, cfg)
        op["invalid"] = g_invalid(rng, cfg, boost=2.5)
    return op


def g_new_instance(rng, cfg):
    return {"op": "new_instance", "cls": rng.randrange(D), "d": rng.randrange(D)}


def g_inst_call(rng, cfg):
    op = g_query(rng, cfg, fn="cls_array")
    op["op"] = "inst_call"
    op["id"] = rng.randrange(D)
    op["keep"] = None
    return op


def g_update(rng, cfg):
    K = rng.randint(1, cfg["max_K"])
    M = rng.randint(1, cfg["max_M"])
    return {
        "op": "update",
        "sd": rng.randrange(D),
        "what": rng.choice(["coeffs", "coeffs", "exps", "exps", "coord", "angmom", "coord_type", "icenter", "variant"]),
        "variant": rng.randrange(3),
        "how": rng.choice(["rebind", "inplace"]),
        "exps": [_exp(rng) for _ in range(4)],
        "coeffs": [[_coef(rng) for _ in range(M)] for _ in range(4)],
        "xyz": _xyz(rng, cfg["coord_scale"]),
        "angmom": rng.randint(0, cfg["max_l"]),
        "ctype": rng.choice(["cartesian", "spherical", "c", "p"]),
        "icenter": rng.choice([None, 0, 3]),
        "env": g_env(rng, cfg),
        "fault": g_fault(rng, cfg),
        "twin_tol": math.exp(rng.uniform(math.log(1e-10), math.log(0.9))),
        # None: replace by the drawn values; a number: multiply the current values by it (tiny changes matter:
        # a renormalisation may not be skipped because the parameters "look" unchanged)
        "factor": rng.choice([None, None, None, 1 + 4e-6, 1 - 3e-7, 1 + 1e-9, 2.0, 0.5, 1 + 1e-3]),
        "factor_index": rng.randrange(D),
    }


def g_scribble(rng, cfg):
    return {"op": "scribble", "rd": rng.randrange(D), "seed": rng.randrange(D)}


def g_query(rng, cfg, fn=None):
    if fn is None:
        names = [q[0] for q in QUERY_FNS]
        weights = [q[1] for q in QUERY_FNS]
        f = cfg.get("focus")
        if f == "electrostatic_potential":
            weights = [w * (8 if n == f else 1) for n, w in zip(names, weights)]
        elif f == "eval":
            weights = [w * (4 if n.startswith("evaluate") else 1) for n, w in zip(names, weights)]
        elif f == "integral":
            weights = [w * (4 if n.endswith("integral") or n.endswith("asymmetric") else 1)
                       for n, w in zip(names, weights)]
        elif f == "screen":
            weights = [w * (12 if n == "overlap_integral" else 1) for n, w in zip(names, weights)]
        fn = rng.choices(names, weights)[0]
    tr = None
    if rng.random() < cfg["p_transform"]:
        tr = rng.choice(["square", "rect"])
    params = {
        "orders": [rng.choice([0, 0, 1, 1, 2, 3]) for _ in range(3)],
        "orders_one": [rng.choice([0, 0, 1, 2]) for _ in range(3)],
        "orders_two": [rng.choice([0, 0, 1, 2]) for _ in range(3)],
        "moment_orders": [[rng.choice([0, 0, 1, 2, 3]) for _ in range(3)] for _ in range(rng.randint(1, 3))],
        "moment_coord": _xyz(rng, cfg["coord_scale"]),
        "deriv_type": rng.choice(["general", "direct"]),
        "notation": rng.choice(["physicist", "chemist"]),
        "alpha": rng.choice([1, 0, 0.5, 2]),
        "beta": rng.choice([0, 0, 0.25, 1]),
        "threshold": rng.choice([1.0e-8, 1.0e-8, 0.0, 1.0, 1.0e6]),
        "threshold_dist": rng.choice([0.0, 0.0, 0.0, 0.1, 1.5, 0]),
        "tol_screen": rng.choice([None, None, 1e-8, 1e-4, 0.5, math.exp(rng.uniform(math.log(1e-12), math.log(0.9))),
                                  math.exp(rng.uniform(math.log(1e-3), math.log(0.9)))]),
        "symmetric": rng.random() < 0.5,
        "charges": rng.choice(["random", "random", "ghost", "ints"]),
        "dm": rng.choice(["psd", "psd", "indef", "zero", "nearsym"]),
        "cls": rng.choice(CLS_NAMES),
        "method": rng.choice(["cartesian", "spherical", "mix", "lincomb"]),
        "same_points_nuclei": rng.random() < 0.3,
        "same_basis": rng.random() < 0.4,
        "apply_from": rng.choice(["left", "right"]),
    }
    keep = None
    if fn == "evaluate_basis" and rng.random() < 0.3:
        keep = "orbs"
    elif fn == "overlap_integral" and rng.random() < 0.2:
        keep = "dm"
    heavy = False
    if cfg.get("p_heavy") and rng.random() < cfg["p_heavy"]:
        fn, heavy, tr = "electron_repulsion_integral", True, None
    op = {
        "op": "query",
        "fn": fn,
        "heavy": heavy,
        "big": rng.random() < cfg.get("p_big", 0.0),
        "huge": rng.random() < 0.2,
        "d": [rng.randrange(D) for _ in range(12)],
        "seed": rng.randrange(D),
        "transform": tr,
        "reuse": cfg["p_reuse"],
        "params": params,
        "keep": keep,
    }
    if keep is None:
        op["env"] = g_env(rng, cfg, force=(fn == "electrostatic_potential" and "ambient_fp" in cfg["enabled"]
                                          and rng.random() < 0.3))
        op["fault"] = g_fault(rng, cfg)
        op["invalid"] = g_invalid(rng, cfg)
    if heavy:
        op["keep"] = None
        op["env"] = op["fault"] = op["invalid"] = None
    if op["big"] and op.get("fault"):
        op["fault"] = None  # the abort sites of a call do not depend on the size of its input
    return op


GEN = {
    "new_coords": g_new_coords,
    "new_shell": g_new_shell,
    "ctor": g_ctor,
    "copy_shell": g_copy_shell,
    "new_container": g_new_container,
    "write_file": g_write_file,
    "parse": g_parse,
    "make_contr": g_make_contr,
    "new_mole": g_new_mole,
    "from_pyscf": g_from_pyscf,
    "new_iodata": g_new_iodata,
    "from_iodata": g_from_iodata,
    "new_instance": g_new_instance,
    "inst_call": g_inst_call,
    "update": g_update,
    "scribble": g_scribble,
    "query": g_query,
}


# ----------------------------------------------------------------------------------------------
# site sweeps: one query repeated with the fault walking over the distinct sites of its trace

SWEEP_CHUNK = 24


def sweep_targets(profile):
    if profile == "C18":
        return ["parse", "make_contr", "from_pyscf"]
    fns = [q[0] for q in QUERY_FNS if not q[0].startswith("cls_")]
    # the class-level API is swept per (class, method): 10 x 4 assemblers and 10 block routines
    cls_targets = ["cls_array:%s:%s" % (c, m) for c in CLS_NAMES for m in ("cartesian", "spherical", "mix", "lincomb")]
    cls_targets += ["cls_contraction:%s" % c for c in CLS_NAMES]
    return fns + ["make_contr", "from_pyscf", "parse", "from_iodata", "update", "ctor"] + cls_targets


def gen_sweep(seed, profile):
    rng = random.Random(seed ^ 0x5EED5EED)
    cfg = gen_config(rng, profile)
    cfg["enabled"] = sorted(set(cfg["enabled"]) | {"line_fault"})
    cfg["fault_free"] = False
    cfg["mode"] = "sweep"
    targets = sweep_targets(profile)
    target = targets[seed % len(targets)]
    idx = seed // len(targets)
    if idx % 4 == 3:  # every fourth sweep enumerates the catalogue of deliberately invalid arguments instead
        sweep_kind = "invalid"
        chunk = (idx // 4) % 4
    else:
        sweep_kind = "line"
        chunk = (idx // 4 * 3 + idx % 4) % 40
    ops = []
    if target in IMPORT_QUERIES or rng.random() < 0.3:
        ops.append(g_write_file(rng, cfg, new=True))
        ops.append(g_parse(rng, cfg, keep=True))
        if target != "parse":
            ops.append(g_make_contr(rng, cfg, keep=True))
        if target == "from_pyscf":
            ops.append(g_new_mole(rng, cfg))
        if target == "from_iodata":
            ops.append(g_new_iodata(rng, cfg))
    else:
        for _ in range(rng.randint(1, 2)):
            ops.append(g_new_shell(rng, cfg))
        ops.append(g_new_coords(rng, cfg))
        if rng.random() < 0.5:
            ops.append(g_new_container(rng, cfg))
    cfg2 = dict(cfg, p_fault=0.0, p_invalid=0.0)
    if target == "parse":
        q = g_parse(rng, cfg2, keep=False)
    elif target == "make_contr":
        q = g_make_contr(rng, cfg2, keep=False)
    elif target == "from_pyscf":
        q = g_from_pyscf(rng, cfg2, keep=False)
    elif target == "from_iodata":
        q = g_from_iodata(rng, cfg2, keep=False)
    elif target == "update":
        q = g_update(rng, cfg2)
        q["what"] = rng.choice(["coeffs", "exps", "angmom"])
    elif target == "ctor":
        q = g_ctor(rng, cfg2)
    elif target.startswith("cls_"):
        parts = target.split(":")
        q = g_query(rng, cfg2, fn=parts[0])
        q["params"]["cls"] = parts[1]
        if len(parts) > 2:
            q["params"]["method"] = parts[2]
        q["keep"] = None
    else:
        q = g_query(rng, cfg2, fn=target)
        q["keep"] = None
    q["invalid"] = None
    q["big"] = q["huge"] = q["heavy"] = False  # a sweep repeats its call 24 times, several passes each
    q["env"] = g_env(rng, dict(cfg, p_fault=0.25)) if rng.random() < 0.3 else None
    for t in range(SWEEP_CHUNK):
        qq = dict(q)
        n = chunk * SWEEP_CHUNK + t
        if sweep_kind == "line":
            qq["fault"] = {"kind": "line", "strategy": "sweep", "d": n}
        else:
            qq["fault"] = None
            qq["invalid"] = {"arg": n, "kind": n // 6}
        ops.append(qq)
    cfg["sweep_kind"] = sweep_kind
    cfg["sweep_target"] = target
    cfg["sweep_chunk"] = chunk
    return cfg, ops[:30]


def history_for(profile, mode, seed):
    if mode == "sweep":
        return gen_sweep(seed, profile)
    return gen_history(seed, profile)
