"""Fault machinery: line-level aborts through ``sys.settrace`` and the ambient (process-wide) state.

A ``SimFault`` is raised by the trace function *before* the k-th eligible line event executed in a
frame whose code lives under ``<root>/gbasis/``: the model of a failing allocation / cancelled call
at that statement.  Lines inside ``finally:`` bodies and ``except`` handlers, ``try:`` lines and
``with`` header lines are not eligible (DESIGN §9): a fault there would flag the accepted restore
idioms themselves.
"""
import ast
import os
import sys
import warnings

import numpy as np
import scipy.special as sps


class SimFault(MemoryError):
    """Injected failure."""


_EXCLUDED = {}


def excluded_lines(filename):
    """Line numbers of ``filename`` at which no fault is injected."""
    got = _EXCLUDED.get(filename)
    if got is not None:
        return got
    ex = set()
    try:
        # the sources contain docstrings with invalid escape sequences: under the simulated user's
        # warnings-as-errors setting the SyntaxWarning would become a SyntaxError *here*, in the tracer
        with open(filename, "r") as fh, warnings.catch_warnings():
            warnings.simplefilter("ignore")
            tree = ast.parse(fh.read())
    except OSError:
        _EXCLUDED[filename] = ex
        return ex

    def span(node):
        return range(node.lineno, (getattr(node, "end_lineno", None) or node.lineno) + 1)

    for node in ast.walk(tree):
        if isinstance(node, ast.Try) or node.__class__.__name__ == "TryStar":
            ex.add(node.lineno)
            for h in node.handlers:
                ex.update(span(h))
            for n in node.finalbody:
                ex.update(span(n))
            if node.finalbody:
                # the line carrying the ``finally:`` keyword itself
                ex.add(node.finalbody[0].lineno - 1)
        elif isinstance(node, (ast.With, ast.AsyncWith)):
            first_body = node.body[0].lineno
            for ln in range(node.lineno, first_body):
                ex.add(ln)
    _EXCLUDED[filename] = ex
    return ex


def precompute_excluded(pkgdir):
    """Parse every source file of the package once, outside any simulated call."""
    for dirpath, _, files in os.walk(pkgdir):
        for f in files:
            if f.endswith(".py"):
                excluded_lines(os.path.join(dirpath, f))


def eligible_sites(pkgdir):
    """{relative file: set(line)} of lines inside function bodies of the package at which a fault may be placed."""
    out = {}
    for dirpath, _, files in os.walk(pkgdir):
        for f in sorted(files):
            if not f.endswith(".py") or f == "libcint.py":
                continue
            path = os.path.join(dirpath, f)
            try:
                with open(path) as fh, warnings.catch_warnings():
                    warnings.simplefilter("ignore")
                    code = compile(fh.read(), path, "exec")
            except (OSError, SyntaxError):
                continue
            lines = set()
            stack = [c for c in code.co_consts if hasattr(c, "co_lines")]
            # class bodies are executed at import; only code reachable from functions matters
            while stack:
                c = stack.pop()
                is_class_body = c.co_name != "<lambda>" and "__qualname__" in c.co_names and "__module__" in c.co_names
                if not is_class_body:
                    first = c.co_firstlineno
                    for _, _, ln in c.co_lines():
                        if ln is not None and ln != first:
                            lines.add(ln)
                stack.extend(k for k in c.co_consts if hasattr(k, "co_lines"))
            lines -= excluded_lines(path)
            out[os.path.relpath(path, pkgdir)] = lines
    return out


class Tracer:
    """Counts eligible line events; optionally raises at one of them; optionally tracks a dirty flag.

    The sampler (ambient state + digests of small argument arrays) is evaluated at function entry and
    exit of every traced frame and at line events of the two outermost traced frames; each line event
    records whether the last sample differed from the sample taken at entry ("dirty window").
    """

    def __init__(self, pkgdir, target=None, sampler=None, cheap=None):
        self.pkgdir = pkgdir
        self.target = target  # index of the event before which the fault is raised
        self.sampler = sampler
        self.cheap = cheap  # evaluated at *every* line event (the error-state dictionaries, ~2 us)
        self.cheap_entry = None
        self.events = []  # (file, line)
        self.dirty = []  # bool per event
        self.n = 0
        self.fired = None
        self.entry_sample = None
        self._cur = False
        self._depth = 0
        self._files = {}

    def _eligible_file(self, filename):
        r = self._files.get(filename)
        if r is None:
            r = filename.startswith(self.pkgdir)
            self._files[filename] = r
        return r

    def _sample(self):
        self._cur = self.sampler() != self.entry_sample

    def global_trace(self, frame, event, arg):
        if event != "call":
            return None
        if not self._eligible_file(frame.f_code.co_filename):
            return None
        self._depth += 1
        if self.sampler is not None and self.target is None:
            self._sample()
        return self.local_trace

    def local_trace(self, frame, event, arg):
        if event == "return":
            self._depth -= 1
            if self.sampler is not None and self.target is None:
                self._sample()
            return self.local_trace
        if event != "line":
            return self.local_trace
        fn = frame.f_code.co_filename
        ln = frame.f_lineno
        if ln in excluded_lines(fn):
            return self.local_trace
        k = self.n
        self.n = k + 1
        if self.target is None:
            self.events.append((fn, ln))
            if self.sampler is not None:
                if self._depth <= 2:
                    self._sample()
                self.dirty.append(self._cur or (self.cheap is not None and self.cheap() != self.cheap_entry))
        elif k == self.target:
            self.fired = (os.path.relpath(fn, self.pkgdir), ln, k)
            raise SimFault(f"injected fault before {self.fired[0]}:{ln} (event {k})")
        return self.local_trace

    def run(self, call):
        if self.sampler is not None and self.target is None:
            self.entry_sample = self.sampler()
            if self.cheap is not None:
                self.cheap_entry = self.cheap()
        old = sys.gettrace()
        sys.settrace(self.global_trace)
        try:
            return call()
        finally:
            sys.settrace(old)


def choose_fault_event(events, dirty_flags, strategy, d):
    """Pick the event index of the fault from the dry pass; returns (index, info) or (None, why)."""
    n = len(events)
    if n == 0:
        return None, "no eligible line events"
    dirty = [i for i, f in enumerate(dirty_flags) if f] if dirty_flags else []
    dset = set(dirty)
    info = {"events": n, "dirty_events": len(dirty)}
    if dirty and (strategy == "dirty" or (strategy == "sweep" and d % 3 == 0)):
        i = dirty[(d // 3) % len(dirty)]
        info["in_dirty_window"] = True
        return i, info
    if strategy in ("site", "dirty", "sweep"):
        sites = {}
        for i, e in enumerate(events):
            sites.setdefault(e, []).append(i)
        keys = sorted(sites)
        info["sites"] = len(keys)
        occ = sites[keys[d % len(keys)]]
        i = occ[(d // len(keys)) % len(occ)]
        info["in_dirty_window"] = i in dset
        return i, info
    i = d % n
    info["in_dirty_window"] = i in dset
    return i, info


# ------------------------------------------------------------------------------------------------
# ambient state

NP_DEFAULT = {"divide": "warn", "over": "warn", "under": "ignore", "invalid": "warn"}


class ErrCall:
    """Callback object for numpy's 'call' mode; counts, never raises."""

    def __init__(self):
        self.count = 0

    def __call__(self, kind, flag):
        self.count += 1


def cheap_ambient():
    return (np.geterr(), sps.geterr())


def ambient_state():
    return (tuple(sorted(np.geterr().items())), id(np.geterrcall()), tuple(sorted(sps.geterr().items())))


def describe_ambient_diff(a, b):
    out = []
    if a[0] != b[0]:
        da, db = dict(a[0]), dict(b[0])
        out.append("np.geterr: " + ", ".join(f"{k}: {da[k]} -> {db[k]}" for k in da if da[k] != db[k]))
    if a[1] != b[1]:
        out.append("np.geterrcall changed")
    if a[2] != b[2]:
        da, db = dict(a[2]), dict(b[2])
        out.append("scipy.special.geterr: " + ", ".join(f"{k}: {da[k]} -> {db[k]}" for k in da if da[k] != db[k]))
    return "; ".join(out)


class Ambient:
    """The user's process-wide numerical settings around one call."""

    def __init__(self, env):
        self.env = env or {}
        self.errcall = ErrCall()

    def __enter__(self):
        self._saved_np = np.geterr()
        self._saved_call = np.geterrcall()
        self._saved_sp = sps.geterr()
        self._cw = warnings.catch_warnings()
        self._cw.__enter__()
        warnings.simplefilter(self.env.get("warn", "ignore"))
        self._filters_entry = list(warnings.filters)
        cfg = dict(NP_DEFAULT)
        cfg.update(self.env.get("np") or {})
        np.seterr(**cfg)
        if "call" in cfg.values():
            np.seterrcall(self.errcall)
        else:
            np.seterrcall(None)
        sp = self.env.get("sp")
        spcfg = {k: "ignore" for k in self._saved_sp}
        if sp == "all":
            spcfg = {k: "raise" for k in spcfg}
        elif sp:
            spcfg[sp] = "raise"
        sps.seterr(**spcfg)
        self.entry = ambient_state()
        return self

    def changed(self):
        now = ambient_state()
        if now != self.entry:
            return describe_ambient_diff(self.entry, now)
        return None

    def warning_filters_changed(self):
        return list(warnings.filters) != self._filters_entry

    def __exit__(self, *exc):
        sps.seterr(**self._saved_sp)
        np.seterrcall(self._saved_call)
        np.seterr(**self._saved_np)
        self._cw.__exit__(*exc)
        return False
