"""Load the library under test from the requested root (default /repo) and expose its public surface."""
import importlib
import os
import sys
import types

MODULES = [
    "gbasis.utils",
    "gbasis.spherical",
    "gbasis.base",
    "gbasis.base_one",
    "gbasis.base_two_symm",
    "gbasis.base_two_asymm",
    "gbasis.base_four_symm",
    "gbasis.contractions",
    "gbasis.integrals._diff_operator_int",
    "gbasis.integrals._moment_int",
    "gbasis.integrals._one_elec_int",
    "gbasis.integrals._two_elec_int",
    "gbasis.integrals.overlap",
    "gbasis.integrals.overlap_asymm",
    "gbasis.integrals.kinetic_energy",
    "gbasis.integrals.momentum",
    "gbasis.integrals.angular_momentum",
    "gbasis.integrals.moment",
    "gbasis.integrals.point_charge",
    "gbasis.integrals.nuclear_electron_attraction",
    "gbasis.integrals.electron_repulsion",
    "gbasis.evals._deriv",
    "gbasis.evals.eval",
    "gbasis.evals.eval_deriv",
    "gbasis.evals.density",
    "gbasis.evals.electrostatic_potential",
    "gbasis.evals.stress_tensor",
    "gbasis.parsers",
    "gbasis.wrappers",
]

FN_MODULE = {
    "overlap_integral": "gbasis.integrals.overlap",
    "overlap_integral_asymmetric": "gbasis.integrals.overlap_asymm",
    "kinetic_energy_integral": "gbasis.integrals.kinetic_energy",
    "momentum_integral": "gbasis.integrals.momentum",
    "angular_momentum_integral": "gbasis.integrals.angular_momentum",
    "moment_integral": "gbasis.integrals.moment",
    "point_charge_integral": "gbasis.integrals.point_charge",
    "nuclear_electron_attraction_integral": "gbasis.integrals.nuclear_electron_attraction",
    "electron_repulsion_integral": "gbasis.integrals.electron_repulsion",
    "evaluate_basis": "gbasis.evals.eval",
    "evaluate_deriv_basis": "gbasis.evals.eval_deriv",
    "evaluate_density_using_evaluated_orbs": "gbasis.evals.density",
    "evaluate_density": "gbasis.evals.density",
    "evaluate_deriv_reduced_density_matrix": "gbasis.evals.density",
    "evaluate_deriv_density": "gbasis.evals.density",
    "evaluate_density_gradient": "gbasis.evals.density",
    "evaluate_density_laplacian": "gbasis.evals.density",
    "evaluate_density_hessian": "gbasis.evals.density",
    "evaluate_posdef_kinetic_energy_density": "gbasis.evals.density",
    "evaluate_general_kinetic_energy_density": "gbasis.evals.density",
    "electrostatic_potential": "gbasis.evals.electrostatic_potential",
    "evaluate_stress_tensor": "gbasis.evals.stress_tensor",
    "evaluate_ehrenfest_force": "gbasis.evals.stress_tensor",
    "evaluate_ehrenfest_hessian": "gbasis.evals.stress_tensor",
    "generate_transformation": "gbasis.spherical",
    "real_solid_harmonic": "gbasis.spherical",
    "expansion_coeff": "gbasis.spherical",
    "harmonic_norm": "gbasis.spherical",
    "shift_factor": "gbasis.spherical",
    "factorial2": "gbasis.utils",
    "is_integral_screened": "gbasis.integrals.overlap",
    "parse_nwchem": "gbasis.parsers",
    "parse_gbs": "gbasis.parsers",
    "make_contractions": "gbasis.parsers",
    "from_pyscf": "gbasis.wrappers",
    "from_iodata": "gbasis.wrappers",
}

CLASSES = {
    "Overlap": "gbasis.integrals.overlap",
    "OverlapAsymmetric": "gbasis.integrals.overlap_asymm",
    "KineticEnergyIntegral": "gbasis.integrals.kinetic_energy",
    "MomentumIntegral": "gbasis.integrals.momentum",
    "AngularMomentumIntegral": "gbasis.integrals.angular_momentum",
    "Moment": "gbasis.integrals.moment",
    "PointChargeIntegral": "gbasis.integrals.point_charge",
    "ElectronRepulsionIntegral": "gbasis.integrals.electron_repulsion",
    "Eval": "gbasis.evals.eval",
    "EvalDeriv": "gbasis.evals.eval_deriv",
}


class HarnessError(Exception):
    """Anything that is the simulator's fault; never reported as a violation."""


_API = None


def root():
    return os.path.realpath(os.environ.get("GBASIS_ROOT", "/repo"))


def _install_iodata_stub():
    """iodata is not installed: provide ``iodata.convert.convert_to_segmented`` (identity on the stub
    basis, which is segmented already) so that the real ``from_iodata`` can run."""
    if "iodata" in sys.modules:
        return
    pkg = types.ModuleType("iodata")
    pkg.__path__ = []
    conv = types.ModuleType("iodata.convert")

    def convert_to_segmented(obasis):
        return obasis

    conv.convert_to_segmented = convert_to_segmented
    pkg.convert = conv
    sys.modules["iodata"] = pkg
    sys.modules["iodata.convert"] = conv


def load():
    """Import every module of the library from ``root()`` once; returns a namespace object."""
    global _API
    if _API is not None:
        return _API
    r = root()
    if not os.path.isdir(os.path.join(r, "gbasis")):
        raise HarnessError(f"no gbasis package under {r}")
    if "gbasis" in sys.modules:
        raise HarnessError("gbasis imported before histsim.api.load()")
    sys.path.insert(0, r)
    import warnings

    with warnings.catch_warnings():
        warnings.simplefilter("ignore")
        mods = {}
        for name in MODULES:
            mods[name] = importlib.import_module(name)
    for name, m in mods.items():
        f = os.path.realpath(getattr(m, "__file__", "") or "")
        if not f.startswith(r + os.sep):
            raise HarnessError(f"{name} was imported from {f}, not from {r}")
    _install_iodata_stub()
    # the simulated user's default: Python warnings are not shown (numpy's own error state stays at its default)
    warnings.simplefilter("ignore")
    ns = types.SimpleNamespace()
    ns.root = r
    ns.pkgdir = os.path.join(r, "gbasis") + os.sep
    ns.mods = mods
    ns.fn = {k: getattr(mods[v], k) for k, v in FN_MODULE.items()}
    ns.cls = {k: getattr(mods[v], k) for k, v in CLASSES.items()}
    ns.Shell = mods["gbasis.contractions"].GeneralizedContractionShell
    ns.parsers = mods["gbasis.parsers"]
    _API = ns
    from .faults import precompute_excluded

    precompute_excluded(ns.pkgdir)
    return ns
