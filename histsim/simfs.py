"""In-memory file system installed as ``gbasis.parsers.open`` (module-global lookup precedes builtins).

Fault kinds: error on open (ENOENT for missing files is ordinary behaviour, EACCES/EIO are injected)
and EIO on read().  A real-directory variant writes the same texts below a temporary directory so
that a minority of runs exercise the real ``open``.
"""
import errno
import os
import shutil
import tempfile


class SimFile:
    def __init__(self, fs, path, text):
        self._fs = fs
        self._path = path
        self._text = text
        self.closed = False

    def read(self, *args):
        if self.closed:
            raise ValueError("I/O operation on closed file.")
        f = self._fs.pending_fault
        if f == "read_eio":
            self._fs.pending_fault = None
            self._fs.fired["fs_read_error"] = self._fs.fired.get("fs_read_error", 0) + 1
            raise OSError(errno.EIO, "Input/output error (simulated)", self._path)
        return self._text

    def close(self):
        if not self.closed:
            self.closed = True
            self._fs.open_handles -= 1

    def __enter__(self):
        return self

    def __exit__(self, *exc):
        self.close()
        return False

    def __iter__(self):
        return iter(self._text.splitlines(True))


class SimFS:
    """{path: text}; ``open`` is what the parsers see."""

    def __init__(self):
        self.files = {}
        self.pending_fault = None  # None | "open_eacces" | "open_eio" | "read_eio"
        self.fired = {}
        self.open_handles = 0
        self.opens = 0

    def write(self, path, text):
        self.files[path] = text

    def open(self, path, mode="r", *args, **kwargs):
        self.opens += 1
        if "w" in mode or "a" in mode or "+" in mode:
            raise OSError(errno.EROFS, "simulated file system is read-only for the library", path)
        f = self.pending_fault
        if f in ("open_eacces", "open_eio"):
            self.pending_fault = None
            self.fired["fs_open_error"] = self.fired.get("fs_open_error", 0) + 1
            code = errno.EACCES if f == "open_eacces" else errno.EIO
            raise OSError(code, os.strerror(code) + " (simulated)", path)
        if not isinstance(path, str) or path not in self.files:
            raise FileNotFoundError(errno.ENOENT, "No such file or directory", path)
        self.open_handles += 1
        return SimFile(self, path, self.files[path])

    def snapshot(self):
        return tuple(sorted(self.files.items()))

    def cleanup(self):
        pass


class RealFS:
    """Same interface, real files in a temporary directory; no injected faults (the seam is absent)."""

    def __init__(self):
        self.files = {}
        self.pending_fault = None
        self.fired = {}
        self.open_handles = 0
        self.opens = 0
        self._dir = tempfile.mkdtemp(prefix="histsim-fs-")

    def _real(self, path):
        return os.path.join(self._dir, path.strip("/").replace("/", "_"))

    def write(self, path, text):
        self.files[path] = text
        with open(self._real(path), "w") as fh:
            fh.write(text)

    def open(self, path, mode="r", *args, **kwargs):
        self.opens += 1
        self.pending_fault = None
        if not isinstance(path, str):
            raise FileNotFoundError(errno.ENOENT, "No such file or directory", path)
        return open(self._real(path), mode, *args, **kwargs)

    def snapshot(self):
        out = []
        for p in sorted(self.files):
            try:
                with open(self._real(p)) as fh:
                    out.append((p, fh.read()))
            except OSError as exc:
                out.append((p, "<%s>" % type(exc).__name__))
        return tuple(out)

    def cleanup(self):
        shutil.rmtree(self._dir, ignore_errors=True)
