"""File system seen by ``gbasis.parsers``.

``SimFS`` keeps every file as a *real* file below a private temporary directory (so that code which
reaches the file by any API - ``open``, ``os.stat``, ``pathlib`` - finds it) and installs its ``open``
as ``gbasis.parsers.open`` (module-global lookup precedes builtins): that seam injects the faults -
EACCES/EIO on open, EIO on ``read()``.  ``RealFS`` is the same without the seam (no injected faults);
a minority of runs use it to show that the seam does not change behaviour.

The library only ever sees real path strings; the simulator names files by virtual paths
(``/sim/basis0.nw``) so that operation logs do not depend on the temporary directory's name.
"""
import builtins
import errno
import os
import shutil
import tempfile


class FaultyFile:
    """Proxy around a real text file whose first ``read`` may fail."""

    def __init__(self, fs, fh, path):
        self._fs = fs
        self._fh = fh
        self._path = path

    def read(self, *args):
        if self._fs.pending_fault == "read_eio":
            self._fs.pending_fault = None
            self._fs.fired["fs_read_error"] = self._fs.fired.get("fs_read_error", 0) + 1
            raise OSError(errno.EIO, "Input/output error (simulated)", self._path)
        return self._fh.read(*args)

    def close(self):
        if not self._fh.closed:
            self._fs.open_handles -= 1
        return self._fh.close()

    def __enter__(self):
        return self

    def __exit__(self, *exc):
        self.close()
        return False

    def __iter__(self):
        return iter(self._fh)

    def __getattr__(self, name):
        return getattr(self._fh, name)


class SimFS:
    seam = True

    def __init__(self):
        self.files = {}  # virtual path -> text (the model of what is stored)
        self.pending_fault = None  # None | "open_eacces" | "open_eio" | "read_eio"
        self.fired = {}
        self.open_handles = 0
        self.opens = 0
        self._dir = tempfile.mkdtemp(prefix="histsim-fs-")

    def real(self, path):
        """Real path handed to the library for a virtual path."""
        if not isinstance(path, str):
            return path
        return os.path.join(self._dir, path.strip("/").replace("/", "_"))

    def write(self, path, text, keep_mtime=False):
        """Store ``text``; with ``keep_mtime`` the time stamps of the file being replaced are kept (a file
        system with coarse time stamps, or a copy that preserves them)."""
        real = self.real(path)
        old = None
        if keep_mtime:
            try:
                st = os.stat(real)
                old = (st.st_atime_ns, st.st_mtime_ns)
            except OSError:
                old = None
        self.files[path] = text
        with builtins.open(real, "w") as fh:
            fh.write(text)
        if old is not None:
            os.utime(real, ns=old)

    def open(self, path, mode="r", *args, **kwargs):
        self.opens += 1
        f = self.pending_fault
        if f in ("open_eacces", "open_eio"):
            self.pending_fault = None
            self.fired["fs_open_error"] = self.fired.get("fs_open_error", 0) + 1
            code = errno.EACCES if f == "open_eacces" else errno.EIO
            raise OSError(code, os.strerror(code) + " (simulated)", path)
        fh = builtins.open(path, mode, *args, **kwargs)
        self.open_handles += 1
        return FaultyFile(self, fh, path)

    def snapshot(self):
        out = []
        for p in sorted(self.files):
            try:
                with builtins.open(self.real(p)) as fh:
                    out.append((p, fh.read()))
            except OSError as exc:
                out.append((p, "<%s>" % type(exc).__name__))
        return tuple(out)

    def cleanup(self):
        shutil.rmtree(self._dir, ignore_errors=True)


class RealFS(SimFS):
    """No seam: the parsers use the builtin ``open``; faults cannot be injected."""

    seam = False

    def open(self, path, mode="r", *args, **kwargs):
        self.opens += 1
        self.pending_fault = None
        return builtins.open(path, mode, *args, **kwargs)
